/*
 * bitmapw.c -- C16, second engine: wide bitmaps.  The closure explorer (bitmapx.c) works on bitmaps of at most 17 elements, which never
 * reaches the 64-bit-word scanning loops of the bit-array backend or multi-extent walks of the rbtree over long distances.  This engine
 * enumerates, on a bitmap of N elements (N a few hundred, start not aligned), a family of contents x EVERY query range:
 *
 *   contents: all-set with one clear element at every position / all-clear with one set element at every position /
 *             all-set with a clear run of length L at every position, all-clear with a set run (L in 2, 63, 64, 65) /
 *             empty, full, alternating blocks of 1, 7, 64
 *   each content is built by two routes (single-bit mark/unmark; range mark/unmark + set_range) and both objects must answer alike
 *   queries:  for every lo <= hi in [start, end]: find_first_zero(lo,hi), find_first_set(lo,hi), test_block_bitmap_range2(lo, hi-lo+1)
 *             against a plain byte-array reference; get_range for every (lo, length) on a sub-family
 *   updates:  for every lo <= hi: mark_range / unmark_range on {empty, full, alternating-64} and a complete read-back
 *
 * usage: bitmapw <ba|rb|b32> <start> <n> <cluster_bits> [stride]     (stride > 1: thinner position sweep, for the quick tier)
 * output: JSON lines ("violation" ..., final "summary").
 */
#define _GNU_SOURCE
#include "config.h"
#include <stdio.h>
#include <stdlib.h>
#include <string.h>
#include <stdint.h>
#include <errno.h>
#include "ext2_fs.h"
#include "ext2fsP.h"
#include "bmap64.h"

static struct struct_ext2_filsys fakefs;
static struct ext2_super_block fakesb;
static int backend, cbits;
static unsigned S, N, E;		/* start, count, end (elements = clusters) */
static unsigned char *ref;	/* ref[i] = element S+i */
static long nq, nviol, ncontents;
enum { B_BA, B_RB, B_32 };

static ext2fs_generic_bitmap mk(void)
{
	ext2fs_generic_bitmap b = NULL; errcode_t rc;
	if (backend == B_32) rc = ext2fs_make_generic_bitmap(EXT2_ET_MAGIC_BLOCK_BITMAP, &fakefs, S, E, E + 5, "w32", 0, &b);
	else rc = ext2fs_alloc_generic_bmap(&fakefs, EXT2_ET_MAGIC_BLOCK_BITMAP64, backend == B_BA ? EXT2FS_BMAP64_BITARRAY : EXT2FS_BMAP64_RBTREE, S, E, E + 5, "w", &b);
	if (rc || !b) { fprintf(stderr, "cannot allocate bitmap: %ld\n", (long) rc); exit(2); }
	return b;
}
static void viol(const char *content, const char *q, unsigned long long a, unsigned long long b, const char *msg)
{
	if (nviol++ < 40)
		printf("{\"type\":\"violation\",\"content\":\"%s\",\"query\":\"%s(%llu,%llu)\",\"msg\":\"%s\"}\n", content, q, a, b, msg);
}
static uint64_t blk(unsigned el) { return (uint64_t) el << cbits; }		/* first block of an element */

/* build both routes from ref[] */
static void build(ext2fs_generic_bitmap *pa, ext2fs_generic_bitmap *pb)
{
	ext2fs_generic_bitmap a = mk(), b = mk();
	unsigned i, j;
	/* route 1: single bits, descending (so the rbtree inserts in front) for even contents, ascending otherwise */
	for (i = 0; i < N; i++) if (ref[i]) ext2fs_mark_generic_bmap(a, blk(S + i));
	/* route 2: mark the whole range, then unmark maximal clear runs (or the other way round when mostly clear) */
	{
		unsigned ones = 0;
		for (i = 0; i < N; i++) ones += ref[i];
		if (ones * 2 >= N) {
			ext2fs_mark_block_bitmap_range2(b, blk(S), (uint64_t) N << cbits);
			for (i = 0; i < N; i = j) {
				for (j = i; j < N && !ref[j]; j++) ;
				if (j > i) ext2fs_unmark_block_bitmap_range2(b, blk(S + i), (uint64_t)(j - i) << cbits);
				else j = i + 1;
			}
		} else {
			for (i = 0; i < N; i = j) {
				for (j = i; j < N && ref[j]; j++) ;
				if (j > i) ext2fs_mark_block_bitmap_range2(b, blk(S + i), (uint64_t)(j - i) << cbits);
				else j = i + 1;
			}
		}
	}
	*pa = a; *pb = b;
}
static int ref_first(unsigned lo, unsigned hi, int want)
{
	unsigned i;
	for (i = lo; i <= hi; i++) if (ref[i - S] == want) return (int) i;
	return -1;
}
static void queries(const char *name, ext2fs_generic_bitmap o, int with_get)
{
	unsigned lo, hi, i;
	char m[200];
	for (lo = S; lo <= E; lo++) {
		int allclear = 1;
		for (hi = lo; hi <= E; hi++) {
			__u64 out; errcode_t rc; int x, r;
			uint64_t qa = blk(lo), qb = blk(hi) + ((1u << cbits) - 1);
			if (ref[hi - S]) allclear = 0;
			if (!(backend == B_32 && cbits)) {
				x = ref_first(lo, hi, 0); out = 0xdeadbeef;
				rc = ext2fs_find_first_zero_generic_bmap(o, qa, qb, &out); nq++;
				if (x < 0 ? rc != ENOENT : (rc != 0 || out != blk(x))) {
					snprintf(m, sizeof m, "rc=%ld out=%llu, reference %d", (long) rc, (unsigned long long) out, x < 0 ? -1 : (int) blk(x));
					viol(name, "find_first_zero", qa, qb, m);
				}
				x = ref_first(lo, hi, 1); out = 0xdeadbeef;
				rc = ext2fs_find_first_set_generic_bmap(o, qa, qb, &out); nq++;
				if (x < 0 ? rc != ENOENT : (rc != 0 || out != blk(x))) {
					snprintf(m, sizeof m, "rc=%ld out=%llu, reference %d", (long) rc, (unsigned long long) out, x < 0 ? -1 : (int) blk(x));
					viol(name, "find_first_set", qa, qb, m);
				}
			}
			r = ext2fs_test_block_bitmap_range2(o, qa, qb - qa + 1); nq++;
			if (!!r != allclear) { snprintf(m, sizeof m, "returned %d, reference says all-clear=%d", r, allclear); viol(name, "test_clear_range", qa, qb - qa + 1, m); }
		}
	}
	if (with_get && !cbits) {
		static unsigned char buf[128];
		for (lo = S; lo <= E; lo += 8)		/* callers pass byte-aligned starts relative to the bitmap start */
			for (hi = lo; hi <= E; hi++) {
				errcode_t rc; unsigned n = hi - lo + 1;
				memset(buf, 0xA5, sizeof buf);
				rc = ext2fs_get_generic_bmap_range(o, lo, n, buf); nq++;
				if (rc) { viol(name, "get_range", lo, n, "returned an error"); continue; }
				for (i = 0; i < n; i++)
					if (((buf[i >> 3] >> (i & 7)) & 1) != ref[lo - S + i]) { snprintf(m, sizeof m, "bit %u of the output is wrong", i); viol(name, "get_range", lo, n, m); break; }
			}
	}
}
static void content(const char *name, int with_get)
{
	ext2fs_generic_bitmap a, b;
	unsigned i;
	char m[96];
	build(&a, &b);
	ncontents++;
	for (i = 0; i < N; i++) {
		int ta = !!ext2fs_test_generic_bmap(a, blk(S + i)), tb = !!ext2fs_test_generic_bmap(b, blk(S + i) + ((1u << cbits) - 1));
		if (ta != ref[i] || tb != ref[i]) { snprintf(m, sizeof m, "element %u: single-bit route %d, range route %d, reference %d", S + i, ta, tb, ref[i]); viol(name, "test", blk(S + i), 0, m); break; }
	}
	{	/* route 3: bulk set of the whole range from a packed buffer (aligned start, as every caller in the tree does), then bulk get */
		ext2fs_generic_bitmap c = mk();
		static unsigned char pk[128], back[128];
		errcode_t rc;
		memset(pk, 0, sizeof pk);
		for (i = 0; i < N; i++) if (ref[i]) pk[i >> 3] |= 1 << (i & 7);
		/* something else first, so that set_range has to replace it */
		ext2fs_mark_block_bitmap_range2(c, blk(S + N / 3), (uint64_t)(N / 2) << cbits);
		rc = ext2fs_set_generic_bmap_range(c, S, N, pk); nq++;
		if (rc) viol(name, "set_range", S, N, "returned an error");
		for (i = 0; i < N; i++)
			if (!!ext2fs_test_generic_bmap(c, blk(S + i)) != ref[i]) { snprintf(m, sizeof m, "after set_range element %u reads %d", S + i, !ref[i]); viol(name, "set_range", S, N, m); break; }
		memset(back, 0x5A, sizeof back);
		rc = ext2fs_get_generic_bmap_range(c, S, N, back); nq++;
		if (rc || memcmp(back, pk, N >> 3) || ((N & 7) && ((back[N >> 3] ^ pk[N >> 3]) & ((1 << (N & 7)) - 1)))) viol(name, "get_range", S, N, "bulk get does not return what bulk set stored");
		if (backend != B_32 && ext2fs_compare_generic_bmap(EXT2_ET_NEQ_BLOCK_BITMAP, a, c)) viol(name, "compare", 0, 1, "object filled by set_range compares unequal to the one filled bit by bit");
		ext2fs_free_generic_bmap(c);
	}
	queries(name, a, with_get);
	queries(name, b, 0);
	if (!(backend == B_32) && ext2fs_compare_generic_bmap(EXT2_ET_NEQ_BLOCK_BITMAP, a, b)) viol(name, "compare", 0, 0, "two objects holding the same set compare unequal");
	ext2fs_free_generic_bmap(a); ext2fs_free_generic_bmap(b);
}
static void updates(const char *name)
{
	unsigned lo, hi, i; char m[96];
	unsigned char *save = malloc(N);
	memcpy(save, ref, N);
	for (lo = S; lo <= E; lo++)
		for (hi = lo; hi <= E; hi++) {
			int op;
			for (op = 0; op < 2; op++) {
				ext2fs_generic_bitmap a, b;
				build(&a, &b);
				if (op == 0) ext2fs_mark_block_bitmap_range2(b, blk(lo), (uint64_t)(hi - lo + 1) << cbits);
				else ext2fs_unmark_block_bitmap_range2(b, blk(lo), (uint64_t)(hi - lo + 1) << cbits);
				nq++;
				for (i = 0; i < N; i++) {
					int want = (S + i >= lo && S + i <= hi) ? (op == 0) : ref[i];
					if (!!ext2fs_test_generic_bmap(b, blk(S + i)) != want) {
						snprintf(m, sizeof m, "afterwards element %u reads %d", S + i, !want);
						viol(name, op == 0 ? "mark_range" : "unmark_range", blk(lo), (uint64_t)(hi - lo + 1) << cbits, m); break;
					}
				}
				ext2fs_free_generic_bmap(a); ext2fs_free_generic_bmap(b);
			}
		}
	free(save);
}

int main(int argc, char **argv)
{
	unsigned p, L, i, stride;
	static const unsigned runs[] = { 2, 63, 64, 65 };
	char name[64];
	if (argc < 5) return 2;
	backend = !strcmp(argv[1], "ba") ? B_BA : !strcmp(argv[1], "rb") ? B_RB : B_32;
	S = atoi(argv[2]); N = atoi(argv[3]); cbits = atoi(argv[4]); stride = argc > 5 ? atoi(argv[5]) : 1;
	E = S + N - 1;
	memset(&fakefs, 0, sizeof fakefs); memset(&fakesb, 0, sizeof fakesb);
	fakefs.super = &fakesb; fakefs.cluster_ratio_bits = cbits;
	fakesb.s_log_cluster_size = cbits;
	ref = calloc(N + 8, 1);
	for (p = 0; p < N; p += (p + stride < N || p == N - 1) ? stride : N - 1 - p) {
		memset(ref, 1, N); ref[p] = 0; snprintf(name, sizeof name, "full-but-%u", S + p); content(name, p % 7 == 0);
		memset(ref, 0, N); ref[p] = 1; snprintf(name, sizeof name, "empty-but-%u", S + p); content(name, p % 7 == 0);
		if (p == N - 1) break;
	}
	for (L = 0; L < sizeof runs / sizeof runs[0]; L++)
		for (p = 0; p + runs[L] <= N; p += stride * 3) {
			memset(ref, 1, N); memset(ref + p, 0, runs[L]); snprintf(name, sizeof name, "full-but-run-%u+%u", S + p, runs[L]); content(name, 0);
			memset(ref, 0, N); memset(ref + p, 1, runs[L]); snprintf(name, sizeof name, "empty-but-run-%u+%u", S + p, runs[L]); content(name, 0);
		}
	memset(ref, 0, N); content("empty", 1); updates("empty");
	memset(ref, 1, N); content("full", 1); updates("full");
	for (i = 0; i < N; i++) ref[i] = i & 1; content("alt1", 1);
	for (i = 0; i < N; i++) ref[i] = (i / 7) & 1; content("alt7", 1);
	for (i = 0; i < N; i++) ref[i] = (i / 64) & 1; content("alt64", 1); updates("alt64");
	printf("{\"type\":\"summary\",\"backend\":\"%s\",\"start\":%u,\"n\":%u,\"cluster_bits\":%d,\"contents\":%ld,\"queries\":%ld,\"violations\":%ld}\n", argv[1], S, N, cbits, ncontents, nq, nviol);
	return nviol ? 1 : 0;
}
