/*
 * vdev.h -- in-memory "devices" standing in for the files libext2fs's unix_io.c talks to.
 *
 * A harness does
 *     #include <system headers>
 *     #include "vdev.h"          (defines vdev_* and the renaming macros)
 *     #include "unix_io.c"       (the tree's file, compiled with its libc calls renamed)
 * Every pread/pwrite/read/write/lseek/fsync/ftruncate/fallocate/fstat/open/close issued by unix_io.c then
 * lands here.  Each virtual file keeps its current bytes, the bytes as of the last completed fsync
 * ("durable"), an ordered write log and a flag "written since last fsync".  Fault injection: the
 * vdev_fail_at-th write-class call (pwrite64/write) fails with EIO.
 */
#ifndef VDEV_H
#define VDEV_H
#include <stdio.h>
#include <stdlib.h>
#include <string.h>
#include <errno.h>
#include <fcntl.h>
#include <unistd.h>
#include <sys/types.h>
#include <sys/stat.h>
#include <sys/ioctl.h>
#include <stdarg.h>
#include <linux/falloc.h>

#define VDEV_MAXF 4
#define VDEV_FD0 1000
struct vdev_file {
	char name[64];
	unsigned char *cur, *durable;
	size_t size, dsize, cap;
	off_t pos;
	int open_count, rdonly;
	int dirty_since_fsync;
	long n_write, n_fsync, n_read;
};
static struct vdev_file vdev_files[VDEV_MAXF];
static int vdev_nfiles;
static long vdev_write_calls;		/* counts pwrite64+write over all files */
static long vdev_fail_at = -1;		/* 1-based index of the write call that fails, -1 = none */
static int vdev_fail_sticky;		/* 1: every write call >= vdev_fail_at fails; 2: calls vdev_fail_at and vdev_fail_at+1 fail (a pwrite and its lseek+write fallback) */
static long vdev_failures;		/* number of injected failures that happened */
static int vdev_require_align;		/* if non-zero: emulate O_DIRECT: reject unaligned buffer/offset/size with EINVAL */

static struct vdev_file *vdev_byname(const char *name, int create)
{
	int i;
	for (i = 0; i < vdev_nfiles; i++)
		if (!strcmp(vdev_files[i].name, name)) return &vdev_files[i];
	if (!create || vdev_nfiles == VDEV_MAXF) return NULL;
	memset(&vdev_files[vdev_nfiles], 0, sizeof(struct vdev_file));
	snprintf(vdev_files[vdev_nfiles].name, sizeof vdev_files[0].name, "%s", name);
	return &vdev_files[vdev_nfiles++];
}
static void vdev_reserve(struct vdev_file *f, size_t n)
{
	if (n <= f->cap) return;
	size_t nc = f->cap ? f->cap : 4096;
	while (nc < n) nc *= 2;
	f->cur = realloc(f->cur, nc); f->durable = realloc(f->durable, nc);
	memset(f->cur + f->cap, 0, nc - f->cap); memset(f->durable + f->cap, 0, nc - f->cap);
	f->cap = nc;
}
static struct vdev_file *vdev_create(const char *name, size_t size)
{
	struct vdev_file *f = vdev_byname(name, 1);
	if (!f) abort();
	vdev_reserve(f, size ? size : 1);
	memset(f->cur, 0, f->cap); memset(f->durable, 0, f->cap);
	f->size = f->dsize = size; f->pos = 0; f->dirty_since_fsync = 0; f->open_count = 0;
	f->n_write = f->n_fsync = f->n_read = 0;
	return f;
}
static void vdev_reset_all(void)
{
	int i;
	for (i = 0; i < vdev_nfiles; i++) { free(vdev_files[i].cur); free(vdev_files[i].durable); }
	vdev_nfiles = 0; vdev_write_calls = 0; vdev_fail_at = -1; vdev_failures = 0; vdev_fail_sticky = 0;
}
static struct vdev_file *vdev_fd(int fd)
{
	if (fd < VDEV_FD0 || fd >= VDEV_FD0 + vdev_nfiles) return NULL;
	return &vdev_files[fd - VDEV_FD0];
}
static int vdev_unaligned(const void *buf, off_t off, size_t n)
{
	if (!vdev_require_align) return 0;
	return (((uintptr_t) buf) % vdev_require_align) || (off % vdev_require_align) || (n % vdev_require_align);
}

static int vdev_open(const char *path, int flags, ...)
{
	struct vdev_file *f = vdev_byname(path, flags & O_CREAT);
	if (!f) { errno = ENOENT; return -1; }
	if (!f->cap) vdev_reserve(f, 1);
	if (flags & O_TRUNC) { f->size = 0; }
	f->open_count++; f->pos = 0;
	return VDEV_FD0 + (int)(f - vdev_files);
}
static int vdev_close(int fd)
{
	struct vdev_file *f = vdev_fd(fd);
	if (!f) { errno = EBADF; return -1; }
	f->open_count--;
	return 0;
}
static ssize_t vdev_pread64(int fd, void *buf, size_t n, off_t off)
{
	struct vdev_file *f = vdev_fd(fd);
	if (!f) { errno = EBADF; return -1; }
	if (vdev_unaligned(buf, off, n)) { errno = EINVAL; return -1; }
	f->n_read++;
	if ((size_t) off >= f->size) return 0;
	if (off + n > f->size) n = f->size - off;
	memcpy(buf, f->cur + off, n);
	return n;
}
static int vdev_inject(void)
{
	vdev_write_calls++;
	if (vdev_fail_at > 0 && (vdev_write_calls == vdev_fail_at || (vdev_fail_sticky == 1 && vdev_write_calls > vdev_fail_at) || (vdev_fail_sticky == 2 && vdev_write_calls == vdev_fail_at + 1))) {
		vdev_failures++; errno = EIO; return 1;
	}
	return 0;
}
static ssize_t vdev_pwrite64(int fd, const void *buf, size_t n, off_t off)
{
	struct vdev_file *f = vdev_fd(fd);
	if (!f) { errno = EBADF; return -1; }
	if (vdev_unaligned(buf, off, n)) { errno = EINVAL; return -1; }
	if (vdev_inject()) return -1;
	vdev_reserve(f, off + n);
	memcpy(f->cur + off, buf, n);
	if ((size_t)(off + n) > f->size) f->size = off + n;
	f->dirty_since_fsync = 1; f->n_write++;
	return n;
}
static off_t vdev_lseek(int fd, off_t off, int whence)
{
	struct vdev_file *f = vdev_fd(fd);
	if (!f) { errno = EBADF; return -1; }
	if (whence == SEEK_SET) f->pos = off;
	else if (whence == SEEK_CUR) f->pos += off;
	else if (whence == SEEK_END) f->pos = f->size + off;
	else { errno = EINVAL; return -1; }
	return f->pos;
}
static ssize_t vdev_read(int fd, void *buf, size_t n)
{
	struct vdev_file *f = vdev_fd(fd);
	ssize_t r;
	if (!f) { errno = EBADF; return -1; }
	r = vdev_pread64(fd, buf, n, f->pos);
	if (r > 0) f->pos += r;
	return r;
}
static ssize_t vdev_write(int fd, const void *buf, size_t n)
{
	struct vdev_file *f = vdev_fd(fd);
	ssize_t r;
	if (!f) { errno = EBADF; return -1; }
	r = vdev_pwrite64(fd, buf, n, f->pos);
	if (r > 0) f->pos += r;
	return r;
}
static int vdev_fsync(int fd)
{
	struct vdev_file *f = vdev_fd(fd);
	if (!f) { errno = EBADF; return -1; }
	memcpy(f->durable, f->cur, f->cap); f->dsize = f->size;
	f->dirty_since_fsync = 0; f->n_fsync++;
	return 0;
}
static int vdev_ftruncate(int fd, off_t len)
{
	struct vdev_file *f = vdev_fd(fd);
	if (!f) { errno = EBADF; return -1; }
	vdev_reserve(f, len);
	if ((size_t) len < f->size) memset(f->cur + len, 0, f->size - len);
	f->size = len; f->dirty_since_fsync = 1;
	return 0;
}
static int vdev_fallocate(int fd, int mode, off_t off, off_t len)
{
	struct vdev_file *f = vdev_fd(fd);
	if (!f) { errno = EBADF; return -1; }
	if (mode & (FALLOC_FL_ZERO_RANGE | FALLOC_FL_PUNCH_HOLE)) {
		size_t end = off + len;
		if (!(mode & FALLOC_FL_KEEP_SIZE) && end > f->size) { vdev_reserve(f, end); f->size = end; }
		if (end > f->size) end = f->size;
		if ((size_t) off < end) memset(f->cur + off, 0, end - off);
		f->dirty_since_fsync = 1; f->n_write++;
		return 0;
	}
	errno = EOPNOTSUPP; return -1;
}
static int vdev_fstat(int fd, struct stat *st)
{
	struct vdev_file *f = vdev_fd(fd);
	if (!f) { errno = EBADF; return -1; }
	memset(st, 0, sizeof *st);
	st->st_mode = S_IFREG | 0644; st->st_size = f->size; st->st_blksize = 4096;
	return 0;
}
static int vdev_fstat64(int fd, struct stat64 *st)
{
	struct vdev_file *f = vdev_fd(fd);
	if (!f) { errno = EBADF; return -1; }
	memset(st, 0, sizeof *st);
	st->st_mode = S_IFREG | 0644; st->st_size = f->size; st->st_blksize = 4096;
	return 0;
}
static int vdev_ioctl(int fd, unsigned long req, ...) { (void) fd; (void) req; errno = ENOTTY; return -1; }
static int vdev_posix_fadvise(int fd, off_t a, off_t b, int c) { (void) fd; (void) a; (void) b; (void) c; return 0; }
static int vdev_fcntl(int fd, int cmd, ...) { (void) fd; (void) cmd; return 0; }
static long long vdev_llseek(int fd, long long off, int whence) { return vdev_lseek(fd, off, whence); }

#ifndef VDEV_NO_RENAME
#define open vdev_open
#define open64 vdev_open
#define close vdev_close
#define pread64 vdev_pread64
#define pwrite64 vdev_pwrite64
#define pread vdev_pread64
#define pwrite vdev_pwrite64
#define lseek vdev_lseek
#define lseek64 vdev_lseek
#define ext2fs_llseek vdev_llseek
#define read vdev_read
#define write vdev_write
#define fsync vdev_fsync
#define ftruncate vdev_ftruncate
#define ftruncate64 vdev_ftruncate
#define fallocate vdev_fallocate
#define fallocate64 vdev_fallocate
#define fstat vdev_fstat
#define fstat64 vdev_fstat64
#define ioctl vdev_ioctl
#define posix_fadvise vdev_posix_fadvise
#define posix_fadvise64 vdev_posix_fadvise
#define fcntl vdev_fcntl
#endif
#endif
