/* accessor TU: includes the tree's gen_bitmap.c to reach struct ext2fs_struct_generic_bitmap_32 */
#include "config.h"
#include "gen_bitmap.c"
char *x_32_array(ext2fs_generic_bitmap b) { return ((ext2fs_generic_bitmap_32) b)->bitmap; }
unsigned x_32_end(ext2fs_generic_bitmap b) { return ((ext2fs_generic_bitmap_32) b)->end; }
unsigned x_32_real(ext2fs_generic_bitmap b) { return ((ext2fs_generic_bitmap_32) b)->real_end; }
