/* xck_crc.c -- CRC primitives for the independent checker (xck).  Written from the mathematical definitions
 * (bit-at-a-time, reflected / non-reflected polynomial division); shares nothing with lib/ext2fs/crc*.c.
 * A byte table is derived from the bitwise definition at load time and cross-checked against it by xck's self-test. */
#include <stdint.h>
#include <stddef.h>

static uint32_t t_c[256], t_be[256]; static uint16_t t_16[256]; static int inited;
/* crc32c: polynomial 0x1EDC6F41, reflected form 0x82F63B78, LSB-first */
uint32_t xck_crc32c_bitwise(uint32_t crc, const unsigned char *p, size_t n)
{
	while (n--) { int k; crc ^= *p++; for (k = 0; k < 8; k++) crc = (crc >> 1) ^ ((crc & 1) ? 0x82F63B78u : 0); }
	return crc;
}
/* crc32 big-endian (jbd2 v1 checksums): polynomial 0x04C11DB7, MSB-first */
uint32_t xck_crc32be_bitwise(uint32_t crc, const unsigned char *p, size_t n)
{
	while (n--) { int k; crc ^= (uint32_t)*p++ << 24; for (k = 0; k < 8; k++) crc = (crc << 1) ^ ((crc & 0x80000000u) ? 0x04C11DB7u : 0); }
	return crc;
}
/* crc16 (ANSI, polynomial 0x8005, reflected 0xA001), LSB-first */
uint16_t xck_crc16_bitwise(uint16_t crc, const unsigned char *p, size_t n)
{
	while (n--) { int k; crc ^= *p++; for (k = 0; k < 8; k++) crc = (crc >> 1) ^ ((crc & 1) ? 0xA001 : 0); }
	return crc;
}
static void init(void)
{
	int i;
	for (i = 0; i < 256; i++) {
		unsigned char b = i;
		t_c[i] = xck_crc32c_bitwise(0, &b, 1);
		t_be[i] = xck_crc32be_bitwise(0, &b, 1);
		t_16[i] = xck_crc16_bitwise(0, &b, 1);
	}
	inited = 1;
}
uint32_t xck_crc32c(uint32_t crc, const unsigned char *p, size_t n)
{
	if (!inited) init();
	while (n--) crc = (crc >> 8) ^ t_c[(crc ^ *p++) & 0xff];
	return crc;
}
uint32_t xck_crc32be(uint32_t crc, const unsigned char *p, size_t n)
{
	if (!inited) init();
	while (n--) crc = (crc << 8) ^ t_be[((crc >> 24) ^ *p++) & 0xff];
	return crc;
}
uint16_t xck_crc16(uint16_t crc, const unsigned char *p, size_t n)
{
	if (!inited) init();
	while (n--) crc = (crc >> 8) ^ t_16[(crc ^ *p++) & 0xff];
	return crc;
}
