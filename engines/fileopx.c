/*
 * fileopx.c -- C09: file data written through libext2fs reads back exactly.
 *
 * Reads histories (one per line, operations separated by blanks) from stdin.  For each history the base image is copied to a
 * scratch file, opened through the real unix_io / libext2fs of the tree under test, every operation is applied to the
 * filesystem and to a byte-array reference model, and after every operation both files are read back completely through fresh
 * handles (two chunkings) and compared with the model.  One JSON line per history is printed:
 *   {"h":"<history>","hash":"<fnv of the final image>","bad":"<first violation or empty>","errs":"<ops that returned an error>"}
 * With --keep <dir> the final image of every history is left in <dir>/<hash>.img (used for the independent checker).
 *
 * operations (f = A|B, numbers decimal):
 *   w:f:off:len        pwrite through a fresh handle
 *   v:f:off1:len1:off2:len2   two writes through ONE handle, then a read of 2 blocks at off1 through the same handle
 *   t:f:size           set size
 *   p:f:start:end      ext2fs_punch (block numbers, end = -1 for "to the end")
 *   a:f:flags:start:len ext2fs_fallocate
 *   r                  close and reopen the filesystem
 */
#define _GNU_SOURCE
#include "config.h"
#include <stdio.h>
#include <stdlib.h>
#include <string.h>
#include <unistd.h>
#include <fcntl.h>
#include <stdint.h>
#include <sys/stat.h>
#include "ext2fs/ext2_fs.h"
#include "ext2fs/ext2fs.h"

#define MAXSZ (768 * 1024)
struct model { unsigned char *d; unsigned long long size; int degraded; };
static struct model M[2];
static ext2_filsys fs;
static ext2_ino_t ino[2];
static char *scratch;
static unsigned char *base; static size_t baselen;
static char bad[512], errs[512];
static unsigned stampk;
static int fatal_asan;
static int strict;	/* FILEOPX_STRICT=1: the filesystem has plenty of free space, so no write / set_size / punch may fail */

void __asan_on_error(void) { fatal_asan = 1; }

static void setbad(const char *fmt, ...) __attribute__((format(printf, 1, 2)));
#include <stdarg.h>
static void setbad(const char *fmt, ...)
{
	va_list ap;
	if (bad[0]) return;
	va_start(ap, fmt); vsnprintf(bad, sizeof bad, fmt, ap); va_end(ap);
}
static void adderr(const char *op, errcode_t e)
{
	size_t n = strlen(errs);
	snprintf(errs + n, sizeof errs - n, "%s%s=%ld", n ? " " : "", op, (long) e);
}
static int open_fs(void)
{
	errcode_t e = ext2fs_open(scratch, EXT2_FLAG_RW | EXT2_FLAG_64BITS, 0, 0, unix_io_manager, &fs);
	if (e) { setbad("ext2fs_open failed: %ld", (long) e); return 1; }
	e = ext2fs_read_bitmaps(fs);
	if (e) { setbad("read_bitmaps failed: %ld", (long) e); return 1; }
	if (ext2fs_namei(fs, EXT2_ROOT_INO, EXT2_ROOT_INO, "A", &ino[0]) || ext2fs_namei(fs, EXT2_ROOT_INO, EXT2_ROOT_INO, "B", &ino[1])) { setbad("files A/B not found"); return 1; }
	return 0;
}
static int close_fs(void)
{
	errcode_t e;
	if (!fs) return 0;
	e = ext2fs_close_free(&fs);
	if (e) { setbad("ext2fs_close failed: %ld", (long) e); return 1; }
	return 0;
}
static unsigned char stamp(unsigned k, unsigned long long pos) { return (unsigned char)(((k * 29 + pos * 7 + (pos >> 8) * 3) & 0xff) | 1); }

/* read file i completely through a fresh handle in chunks of `chunk` bytes and compare with the model */
static void verify(int i, unsigned chunk, const char *after)
{
	ext2_file_t f; errcode_t e; __u64 lsize; unsigned got; static unsigned char buf[65536];
	unsigned long long pos = 0;
	if (M[i].degraded || bad[0]) return;
	e = ext2fs_file_open(fs, ino[i], 0, &f);
	if (e) { setbad("after %s: open of file %c for reading failed: %ld", after, 'A' + i, (long) e); return; }
	e = ext2fs_file_get_lsize(f, &lsize);
	if (e || lsize != M[i].size) { setbad("after %s: file %c has size %llu, model says %llu", after, 'A' + i, (unsigned long long) lsize, M[i].size); ext2fs_file_close(f); return; }
	while (pos < M[i].size + chunk) {
		e = ext2fs_file_read(f, buf, chunk, &got);
		if (e) { setbad("after %s: read of file %c at %llu failed: %ld", after, 'A' + i, pos, (long) e); break; }
		if (pos + got > M[i].size) { setbad("after %s: read of file %c returned %u bytes at %llu, beyond its size %llu", after, 'A' + i, got, pos, M[i].size); break; }
		if (got == 0) {
			if (pos != M[i].size) setbad("after %s: read of file %c stops at %llu, size is %llu", after, 'A' + i, pos, M[i].size);
			break;
		}
		if (memcmp(buf, M[i].d + pos, got)) {
			unsigned k; for (k = 0; k < got && buf[k] == M[i].d[pos + k]; k++) ;
			setbad("after %s: file %c byte %llu reads 0x%02x, last written value is 0x%02x (chunk %u)", after, 'A' + i, pos + k, buf[k], M[i].d[pos + k], chunk);
			break;
		}
		pos += got;
	}
	ext2fs_file_close(f);
}
static void verify_all(const char *after)
{
	verify(0, 4096, after); verify(1, 4096, after);
	verify(0, 1000, after); verify(1, 1000, after);
}

static void do_write(ext2_file_t f, int i, unsigned long long off, unsigned len, const char *op)
{
	static unsigned char buf[65536]; unsigned k, written = 0; errcode_t e; __u64 pos;
	if (off + len > MAXSZ) return;
	stampk++;
	for (k = 0; k < len; k++) buf[k] = stamp(stampk, off + k);
	e = ext2fs_file_llseek(f, off, EXT2_SEEK_SET, &pos);
	if (e) { adderr(op, e); M[i].degraded = 1; return; }
	e = ext2fs_file_write(f, buf, len, &written);
	if (e) adderr(op, e);
	if (e && strict) setbad("%s: write of %u bytes at %llu failed with %ld although the filesystem has free space", op, len, off, (long) e);
	if (written > len) { setbad("%s: write reports %u bytes written of %u", op, written, len); return; }
	if (!e && written != len) setbad("%s: write returned success but wrote %u of %u bytes", op, written, len);
	memcpy(M[i].d + off, buf, written);
	if (written && off + written > M[i].size) {
		M[i].size = off + written;
	}
	if (e && e != EXT2_ET_BLOCK_ALLOC_FAIL && e != ENOSPC) M[i].degraded = 1;
}

static int extent_mapped(int i)
{
	struct ext2_inode in;
	if (ext2fs_read_inode(fs, ino[i], &in)) return 1;
	return (in.i_flags & EXT4_EXTENTS_FL) != 0;
}

static void apply(char *op)
{
	char *t[8]; int n = 0, i; char *s, *sv; char name[64];
	snprintf(name, sizeof name, "%s", op);
	for (s = strtok_r(op, ":", &sv); s && n < 8; s = strtok_r(NULL, ":", &sv)) t[n++] = s;
	if (!n) return;
	if (t[0][0] == 'r') { if (close_fs()) return; if (open_fs()) return; verify_all(name); return; }
	i = t[1][0] == 'B';
	if (t[0][0] == 'w' && n == 4) {
		ext2_file_t f; errcode_t e = ext2fs_file_open(fs, ino[i], EXT2_FILE_WRITE, &f);
		if (e) { setbad("%s: open for writing failed: %ld", name, (long) e); return; }
		do_write(f, i, strtoull(t[2], 0, 10), atoi(t[3]), name);
		e = ext2fs_file_close(f);
		if (e) { adderr(name, e); M[i].degraded = 1; }
	} else if (t[0][0] == 'g' && n == 4) {
		/* grid: n single blocks at every stride-th block (a prefix that builds a deep extent tree / long indirect chains); verified once at the end */
		ext2_file_t f; errcode_t e = ext2fs_file_open(fs, ino[i], EXT2_FILE_WRITE, &f); int k, cnt = atoi(t[2]), stride = atoi(t[3]);
		if (e) { setbad("%s: open for writing failed: %ld", name, (long) e); return; }
		for (k = 0; k < cnt; k++) do_write(f, i, (unsigned long long) k * stride * fs->blocksize, fs->blocksize, name);
		e = ext2fs_file_close(f);
		if (e) { adderr(name, e); M[i].degraded = 1; }
	} else if (t[0][0] == 'v' && n == 6) {
		ext2_file_t f; errcode_t e = ext2fs_file_open(fs, ino[i], EXT2_FILE_WRITE, &f); static unsigned char buf[8192]; unsigned got; __u64 pos;
		unsigned long long o1 = strtoull(t[2], 0, 10);
		if (e) { setbad("%s: open for writing failed: %ld", name, (long) e); return; }
		do_write(f, i, o1, atoi(t[3]), name);
		do_write(f, i, strtoull(t[4], 0, 10), atoi(t[5]), name);
		/* read back through the same handle (exercises the handle's block buffer) */
		if (!M[i].degraded && !errs[0]) {
			e = ext2fs_file_llseek(f, o1, EXT2_SEEK_SET, &pos);
			if (!e) e = ext2fs_file_read(f, buf, 2048, &got);
			if (e) setbad("%s: read through the writing handle failed: %ld", name, (long) e);
			else {
				unsigned long long want = M[i].size > o1 ? M[i].size - o1 : 0; if (want > 2048) want = 2048;
				if (got != want) setbad("%s: read through the writing handle at %llu returned %u bytes, expected %llu", name, o1, got, want);
				else if (memcmp(buf, M[i].d + o1, got)) setbad("%s: read through the writing handle at %llu returns other bytes than were written", name, o1);
			}
		}
		e = ext2fs_file_close(f);
		if (e) { adderr(name, e); M[i].degraded = 1; }
	} else if (t[0][0] == 't' && n == 3) {
		ext2_file_t f; errcode_t e = ext2fs_file_open(fs, ino[i], EXT2_FILE_WRITE, &f); unsigned long long sz = strtoull(t[2], 0, 10);
		if (e) { setbad("%s: open failed: %ld", name, (long) e); return; }
		if (sz > MAXSZ) { ext2fs_file_close(f); return; }
		e = ext2fs_file_set_size2(f, sz);
		if (e && strict) setbad("%s: set_size failed with %ld", name, (long) e);
		if (e) { adderr(name, e); M[i].degraded = 1; }
		else {
			if (sz < M[i].size) memset(M[i].d + sz, 0, M[i].size - sz);
			M[i].size = sz;
		}
		e = ext2fs_file_close(f);
		if (e) { adderr(name, e); M[i].degraded = 1; }
	} else if (t[0][0] == 'p' && n == 4) {
		long long s0 = atoll(t[2]), e0 = atoll(t[3]); errcode_t e; unsigned bs = fs->blocksize;
		unsigned long long from = (unsigned long long) s0 * bs, to = e0 < 0 ? MAXSZ : (unsigned long long)(e0 + 1) * bs;
		e = ext2fs_punch(fs, ino[i], NULL, NULL, s0, e0 < 0 ? ~0ULL : (blk64_t) e0);
		if (e && strict) setbad("%s: punch failed with %ld", name, (long) e);
		if (e) { adderr(name, e); M[i].degraded = 1; }
		else if (from < MAXSZ) { if (to > MAXSZ) to = MAXSZ; if (to > from) memset(M[i].d + from, 0, to - from); }
	} else if (t[0][0] == 'a' && n == 5) {
		errcode_t e;
		/* a size-extending preallocation whose end lies beyond what the model holds is skipped, like a write there (the harness could not play the
		 * caller's part of extending i_size, and initialised blocks past EOF are the caller's error, not the library's) */
		if (((atoi(t[2]) & (EXT2_FALLOCATE_FORCE_INIT | EXT2_FALLOCATE_INIT_BEYOND_EOF)) || !extent_mapped(i)) &&
		    (unsigned long long)(atoll(t[3]) + atoll(t[4])) * fs->blocksize > MAXSZ) { verify_all(name); return; }
		e = ext2fs_fallocate(fs, atoi(t[2]), ino[i], NULL, ~0ULL, atoll(t[3]), atoll(t[4]));
		if (e) { adderr(name, e); if (e != EXT2_ET_BLOCK_ALLOC_FAIL && e != ENOSPC && e != EXT2_ET_UNIMPLEMENTED && e != EXT2_ET_INVALID_ARGUMENT) M[i].degraded = 1; }
		/* preallocation never changes what a file reads.  As in fuse2fs, a caller that asks for initialised blocks (FORCE_INIT /
		 * INIT_BEYOND_EOF) is the non-KEEP_SIZE case and extends i_size to the end of the range itself. */
		else if ((atoi(t[2]) & (EXT2_FALLOCATE_FORCE_INIT | EXT2_FALLOCATE_INIT_BEYOND_EOF)) || !extent_mapped(i)) {
			/* (a block-mapped file cannot hold unwritten blocks beyond EOF: every preallocation is the size-extending kind) */
			unsigned long long end = (unsigned long long)(atoll(t[3]) + atoll(t[4])) * fs->blocksize;
			if (end > M[i].size && end <= MAXSZ) {
				ext2_file_t f; errcode_t e2 = ext2fs_file_open(fs, ino[i], EXT2_FILE_WRITE, &f);
				if (!e2) { e2 = ext2fs_file_set_size2(f, end); ext2fs_file_close(f); }
				if (e2) { adderr(name, e2); M[i].degraded = 1; } else M[i].size = end;
			}
		}
	} else {
		setbad("unknown operation %s", name);
		return;
	}
	verify_all(name);
}

static uint64_t fnv(const unsigned char *p, size_t n) { uint64_t h = 1469598103934665603ULL; size_t i; for (i = 0; i < n; i++) { h ^= p[i]; h *= 1099511628211ULL; } return h; }

int main(int argc, char **argv)
{
	char line[4096]; const char *keep = NULL; FILE *bf; int i;
	if (argc < 3) { fprintf(stderr, "usage: fileopx <base image> <scratch file> [--keep dir]\n"); return 2; }
	scratch = argv[2];
	strict = getenv("FILEOPX_STRICT") != NULL;
	if (argc >= 5 && !strcmp(argv[3], "--keep")) keep = argv[4];
	bf = fopen(argv[1], "rb"); if (!bf) { perror(argv[1]); return 2; }
	fseek(bf, 0, SEEK_END); baselen = ftell(bf); rewind(bf); base = malloc(baselen); if (fread(base, 1, baselen, bf) != baselen) return 2; fclose(bf);
	for (i = 0; i < 2; i++) M[i].d = malloc(MAXSZ + 65536);
	add_error_table(&et_ext2_error_table);
	while (fgets(line, sizeof line, stdin)) {
		char hist[4096], *s, *sv; int fd; unsigned char *img; uint64_t h;
		line[strcspn(line, "\n")] = 0;
		snprintf(hist, sizeof hist, "%s", line);
		fd = open(scratch, O_WRONLY | O_CREAT | O_TRUNC, 0644);
		if (fd < 0 || write(fd, base, baselen) != (ssize_t) baselen) { perror("scratch"); return 2; }
		close(fd);
		for (i = 0; i < 2; i++) { memset(M[i].d, 0, MAXSZ + 65536); M[i].size = 0; M[i].degraded = 0; }
		bad[0] = errs[0] = 0; stampk = 0; fatal_asan = 0;
		if (!open_fs()) {
			for (s = strtok_r(line, " ", &sv); s && !bad[0]; s = strtok_r(NULL, " ", &sv)) apply(s);
		}
		if (fs) { if (bad[0]) ext2fs_close_free(&fs); else close_fs(); }
		if (fatal_asan) setbad("AddressSanitizer report during this history");
		img = malloc(baselen); fd = open(scratch, O_RDONLY); if (read(fd, img, baselen) != (ssize_t) baselen) memset(img, 0, baselen); close(fd);
		h = fnv(img, baselen);
		if (keep) { char p[512]; snprintf(p, sizeof p, "%s/%016llx.img", keep, (unsigned long long) h); fd = open(p, O_WRONLY | O_CREAT | O_EXCL, 0644); if (fd >= 0) { if (write(fd, img, baselen) < 0) {} close(fd); } }
		free(img);
		printf("{\"h\":\"%s\",\"hash\":\"%016llx\",\"bad\":\"%s\",\"errs\":\"%s\",\"degraded\":%d}\n", hist, (unsigned long long) h, bad, errs, M[0].degraded | M[1].degraded);
		fflush(stdout);
	}
	return 0;
}
