/*
 * rwbmx.c -- C17 part B: threaded bitmap loading (ext2fs_rw_bitmaps) vs. single-threaded loading.
 *
 *   rwbmx diff  <image> <maxthreads>          every thread count 1..max x {block,inode,both}: same bitmaps/flags/retval
 *   rwbmx sched <image> <threads> <flags> <preemption-bound> <maxschedules>
 *                                              preemption-bounded exhaustive exploration of thread schedules
 *   rwbmx one   <image> <threads> <flags> c,c,c   replay one schedule (choice list), print trace and result
 *   rwbmx free  <image> <threads> <flags> <repeat>   free-running (this mode is what the TSan build runs)
 *
 * Scheduler (sched/one modes; compiled in only with -DSCHED and linked with -Wl,--wrap=...):
 * pthread_create/join/mutex_lock/mutex_unlock and pread64 of the library objects are wrapped.  Exactly one
 * thread runs at a time (baton = per-thread futex).  Scheduling points: before every mutex_lock, before every
 * pread64, after pthread_create, at thread exit and in join.  At a point the enabled threads are listed in
 * canonical order (the running thread first if still enabled, then ascending ids); choice 0 is the default.
 * Choosing another thread while the running one is enabled costs one preemption.
 */
#define _GNU_SOURCE
#include "config.h"
#include <stdio.h>
#include <stdlib.h>
#include <string.h>
#include <unistd.h>
#include <errno.h>
#include <pthread.h>
#include <sys/wait.h>
#include <sys/syscall.h>
#include <linux/futex.h>
#include <stdint.h>
#include "ext2fs/ext2_fs.h"
#include "ext2fs/ext2fs.h"

static void quiet_hook(const char *w, errcode_t c, const char *f, va_list a) { (void) w; (void) c; (void) f; (void) a; }

struct result { errcode_t rc; unsigned flags; uint64_t bh, ih; int have_b, have_i; long creates; };
static uint64_t fnv(uint64_t h, const void *p, size_t n) { const unsigned char *c = p; while (n--) { h ^= *c++; h *= 1099511628211ULL; } return h; }
static long n_creates;

static uint64_t hash_bmap(ext2_filsys fs, int block)
{
	uint64_t h = 1469598103934665603ULL; unsigned char buf[8192];
	dgrp_t g;
	for (g = 0; g < fs->group_desc_count; g++) {
		errcode_t rc;
		if (block) {
			unsigned n = EXT2_CLUSTERS_PER_GROUP(fs->super);
			rc = ext2fs_get_block_bitmap_range2(fs->block_map, EXT2FS_B2C(fs, fs->super->s_first_data_block) + (blk64_t) g * n, n, buf);
			h = fnv(h, buf, n / 8);
		} else {
			unsigned n = EXT2_INODES_PER_GROUP(fs->super);
			rc = ext2fs_get_inode_bitmap_range2(fs->inode_map, 1 + (ext2_ino_t) g * n, n, buf);
			h = fnv(h, buf, n / 8);
		}
		h = fnv(h, &rc, sizeof rc);
	}
	return h;
}

static int load(const char *img, int threads, int flags, struct result *r)
{
	ext2_filsys fs; errcode_t rc;
	memset(r, 0, sizeof *r);
	rc = ext2fs_open(img, EXT2_FLAG_64BITS | EXT2_FLAG_THREADS | EXT2_FLAG_IGNORE_SB_ERRORS, 0, 0, unix_io_manager, &fs);
	if (rc) { fprintf(stderr, "open %s: %ld\n", img, (long) rc); return -1; }
	n_creates = 0;
	r->rc = ext2fs_rw_bitmaps(fs, flags, threads);
	r->creates = n_creates;
	r->flags = fs->flags & (EXT2_FLAG_BBITMAP_TAIL_PROBLEM | EXT2_FLAG_IBITMAP_TAIL_PROBLEM);
	r->have_b = fs->block_map != NULL; r->have_i = fs->inode_map != NULL;
	if (!r->rc) {
		if (r->have_b) r->bh = hash_bmap(fs, 1);
		if (r->have_i) r->ih = hash_bmap(fs, 0);
	}
	fs->flags &= ~EXT2_FLAG_DIRTY;
	ext2fs_close_free(&fs);
	return 0;
}
static int same(const struct result *a, const struct result *b)
{
	return a->rc == b->rc && a->flags == b->flags && a->bh == b->bh && a->ih == b->ih && a->have_b == b->have_b && a->have_i == b->have_i;
}
static void pr(const char *k, const struct result *r)
{
	printf("\"%s\":{\"rc\":%ld,\"tail_flags\":%u,\"block_hash\":\"%llx\",\"inode_hash\":\"%llx\",\"have\":[%d,%d],\"threads_created\":%ld}", k, (long) r->rc, r->flags,
	       (unsigned long long) r->bh, (unsigned long long) r->ih, r->have_b, r->have_i, r->creates);
}

/* =========================================================================================== scheduler */
#ifdef SCHED
#define MAXT 8
#define MAXPTS 4096
extern int __real_pthread_create(pthread_t *, const pthread_attr_t *, void *(*)(void *), void *);
extern int __real_pthread_join(pthread_t, void **);
extern int __real_pthread_mutex_lock(pthread_mutex_t *);
extern int __real_pthread_mutex_unlock(pthread_mutex_t *);
extern ssize_t __real_pread64(int, void *, size_t, off_t);

static int sched_on;
static struct thr { int used, done, futex; pthread_t tid; void *(*fn)(void *); void *arg; pthread_mutex_t *waiting; int joining; } T[MAXT];
static __thread int me;
static int cur, nthr;
static struct { pthread_mutex_t *m; int owner; } held[64]; static int nheld;
static int prefix[MAXPTS], nprefix;
static struct pt { unsigned char nen, choice, run_enabled, kind; } trace[MAXPTS]; static int ntrace;
static int fail_read_at = -1; static long reads_seen;
static int deadlock;

static void fwait(int *f) { while (__atomic_load_n(f, __ATOMIC_ACQUIRE) == 0) syscall(SYS_futex, f, FUTEX_WAIT, 0, NULL, NULL, 0); __atomic_store_n(f, 0, __ATOMIC_RELEASE); }
static void fwake(int *f) { __atomic_store_n(f, 1, __ATOMIC_RELEASE); syscall(SYS_futex, f, FUTEX_WAKE, 1, NULL, NULL, 0); }
static int owner_of(pthread_mutex_t *m) { int i; for (i = 0; i < nheld; i++) if (held[i].m == m) return held[i].owner; return -1; }
static int enabled(int t)
{
	if (!T[t].used || T[t].done) return 0;
	if (T[t].waiting && owner_of(T[t].waiting) >= 0) return 0;
	if (T[t].joining >= 0 && !T[T[t].joining].done) return 0;
	return 1;
}
/* a scheduling point reached by thread `me`; returns when `me` is scheduled again */
static void point(int kind)
{
	int en[MAXT], n = 0, t, choice, next;
	if (!sched_on) return;
	if (enabled(me)) en[n++] = me;
	for (t = 0; t < nthr; t++) if (t != me && enabled(t)) en[n++] = t;
	if (n == 0) { deadlock = 1; fprintf(stderr, "DEADLOCK: no enabled thread\n"); _exit(77); }
	if (ntrace >= MAXPTS) { fprintf(stderr, "too many scheduling points\n"); _exit(78); }
	choice = ntrace < nprefix ? prefix[ntrace] : 0;
	if (choice >= n) { fprintf(stderr, "replay diverged: choice %d of %d at point %d\n", choice, n, ntrace); _exit(79); }
	trace[ntrace].nen = n; trace[ntrace].choice = choice; trace[ntrace].run_enabled = enabled(me); trace[ntrace].kind = kind; ntrace++;
	next = en[choice];
	if (next == me) return;
	cur = next;
	fwake(&T[next].futex);
	if (!T[me].done) fwait(&T[me].futex);
}
static void *tramp(void *p)
{
	struct thr *t = p; void *r;
	me = (int)(t - T);
	fwait(&t->futex);
	r = t->fn(t->arg);
	t->done = 1;
	point(4);		/* hands the baton on; never returns to a finished thread */
	return r;
}
int __wrap_pthread_create(pthread_t *tid, const pthread_attr_t *a, void *(*fn)(void *), void *arg)
{
	int r, id;
	n_creates++;
	if (!sched_on) return __real_pthread_create(tid, a, fn, arg);
	id = nthr++;
	if (id >= MAXT) { fprintf(stderr, "too many threads\n"); _exit(78); }
	T[id].used = 1; T[id].done = 0; T[id].futex = 0; T[id].fn = fn; T[id].arg = arg; T[id].waiting = NULL; T[id].joining = -1;
	r = __real_pthread_create(&T[id].tid, a, tramp, &T[id]);
	*tid = T[id].tid;
	point(3);
	return r;
}
int __wrap_pthread_join(pthread_t tid, void **ret)
{
	int t;
	if (sched_on) {
		for (t = 0; t < nthr; t++) if (T[t].used && pthread_equal(T[t].tid, tid)) break;
		if (t < nthr) { T[me].joining = t; point(5); T[me].joining = -1; }
	}
	return __real_pthread_join(tid, ret);
}
int __wrap_pthread_mutex_lock(pthread_mutex_t *m)
{
	if (sched_on) {
		point(1);				/* preemption opportunity before the acquire */
		while (owner_of(m) >= 0) { T[me].waiting = m; point(6); }
		T[me].waiting = NULL;
		held[nheld].m = m; held[nheld].owner = me; nheld++;
		return 0;
	}
	return __real_pthread_mutex_lock(m);
}
int __wrap_pthread_mutex_unlock(pthread_mutex_t *m)
{
	if (sched_on) {
		int i;
		for (i = 0; i < nheld; i++) if (held[i].m == m) { held[i] = held[--nheld]; return 0; }
		fprintf(stderr, "unlock of a mutex that is not held\n"); _exit(80);
	}
	return __real_pthread_mutex_unlock(m);
}
ssize_t __wrap_pread64(int fd, void *buf, size_t n, off_t off)
{
	if (sched_on) {
		point(2);
		if (++reads_seen == fail_read_at) { errno = EIO; return -1; }
	}
	return __real_pread64(fd, buf, n, off);
}

/* run one schedule in a forked child; the child writes trace + result into the pipe */
struct outcome { int status; int ntrace; struct pt trace[MAXPTS]; struct result res; };
static int run_schedule(const char *img, int threads, int flags, const int *pfx, int npfx, struct outcome *o)
{
	int fds[2]; pid_t pid; int st; ssize_t got; size_t need = sizeof(*o), off = 0;
	if (pipe(fds)) return -1;
	pid = fork();
	if (pid == 0) {
		static struct outcome oc;
		close(fds[0]);
		memcpy(prefix, pfx, npfx * sizeof(int)); nprefix = npfx; ntrace = 0; nheld = 0; reads_seen = 0;
		memset(T, 0, sizeof T); T[0].used = 1; T[0].joining = -1; nthr = 1; me = 0; cur = 0;
		alarm(20);
		{
			/* open outside the scheduler, explore only ext2fs_rw_bitmaps */
			ext2_filsys fs; errcode_t rc;
			rc = ext2fs_open(img, EXT2_FLAG_64BITS | EXT2_FLAG_THREADS | EXT2_FLAG_IGNORE_SB_ERRORS, 0, 0, unix_io_manager, &fs);
			if (rc) _exit(81);
			n_creates = 0;
			sched_on = 1;
			oc.res.rc = ext2fs_rw_bitmaps(fs, flags, threads);
			sched_on = 0;
			oc.res.creates = n_creates;
			oc.res.flags = fs->flags & (EXT2_FLAG_BBITMAP_TAIL_PROBLEM | EXT2_FLAG_IBITMAP_TAIL_PROBLEM);
			oc.res.have_b = fs->block_map != NULL; oc.res.have_i = fs->inode_map != NULL;
			if (!oc.res.rc) { if (oc.res.have_b) oc.res.bh = hash_bmap(fs, 1); if (oc.res.have_i) oc.res.ih = hash_bmap(fs, 0); }
		}
		oc.status = 0; oc.ntrace = ntrace; memcpy(oc.trace, trace, ntrace * sizeof(struct pt));
		if (write(fds[1], &oc, sizeof oc) != (ssize_t) sizeof oc) _exit(82);
		_exit(0);
	}
	close(fds[1]);
	while (off < need && (got = read(fds[0], (char *) o + off, need - off)) > 0) off += got;
	close(fds[0]);
	waitpid(pid, &st, 0);
	if (off != need) { o->status = WIFEXITED(st) ? 1000 + WEXITSTATUS(st) : 2000 + WTERMSIG(st); o->ntrace = 0; return 1; }
	return 0;
}
#endif

#if !defined(SCHED) && defined(COUNT_CREATES)
extern int __real_pthread_create(pthread_t *, const pthread_attr_t *, void *(*)(void *), void *);
int __wrap_pthread_create(pthread_t *tid, const pthread_attr_t *a, void *(*fn)(void *), void *arg)
{
	__atomic_add_fetch(&n_creates, 1, __ATOMIC_RELAXED);
	return __real_pthread_create(tid, a, fn, arg);
}
#endif

int main(int argc, char **argv)
{
	set_com_err_hook(quiet_hook);
	if (argc < 4) { fprintf(stderr, "usage\n"); return 2; }
	if (!strcmp(argv[1], "diff")) {
		int maxt = atoi(argv[3]), t, fi, bad = 0, runs = 0, threaded = 0;
		static const int fl[] = { EXT2FS_BITMAPS_BLOCK, EXT2FS_BITMAPS_INODE, EXT2FS_BITMAPS_BLOCK | EXT2FS_BITMAPS_INODE };
		for (fi = 0; fi < 3; fi++) {
			struct result ref, r;
			if (load(argv[2], 1, fl[fi], &ref)) return 3;
			for (t = 2; t <= maxt; t++) {
				if (load(argv[2], t, fl[fi], &r)) return 3;
				runs++; if (r.creates) threaded++;
				if (!same(&ref, &r)) {
					bad++;
					printf("{\"type\":\"violation\",\"image\":\"%s\",\"threads\":%d,\"flags\":%d,", argv[2], t, fl[fi]); pr("single", &ref); printf(","); pr("threaded", &r); printf("}\n");
				}
			}
		}
		printf("{\"type\":\"summary\",\"image\":\"%s\",\"runs\":%d,\"runs_that_created_threads\":%d,\"violations\":%d}\n", argv[2], runs, threaded, bad);
		return 0;
	}
	if (!strcmp(argv[1], "free")) {
		int t = atoi(argv[3]), flags = atoi(argv[4]), rep = atoi(argv[5]), i, bad = 0; struct result ref, r;
		if (load(argv[2], 1, flags, &ref)) return 3;
		for (i = 0; i < rep; i++) { if (load(argv[2], t, flags, &r)) return 3; if (!same(&ref, &r)) bad++; }
		printf("{\"type\":\"summary\",\"image\":\"%s\",\"threads\":%d,\"flags\":%d,\"repeat\":%d,\"mismatches\":%d,\"threads_created\":%ld}\n", argv[2], t, flags, rep, bad, r.creates);
		return 0;
	}
#ifdef SCHED
	if (!strcmp(argv[1], "one")) {
		int threads = atoi(argv[3]), flags = atoi(argv[4]), pfx[MAXPTS], n = 0, i; static struct outcome o; char *tok;
		if (argc > 5) for (tok = strtok(argv[5], ","); tok; tok = strtok(NULL, ",")) pfx[n++] = atoi(tok);
		if (argc > 6) fail_read_at = atoi(argv[6]);
		run_schedule(argv[2], threads, flags, pfx, n, &o);
		printf("{\"status\":%d,\"points\":%d,", o.status, o.ntrace); pr("result", &o.res); printf(",\"choices\":[");
		for (i = 0; i < o.ntrace; i++) printf("%d%s", o.trace[i].choice, i + 1 < o.ntrace ? "," : "");
		printf("]}\n");
		return 0;
	}
	if (!strcmp(argv[1], "sched")) {
		int threads = atoi(argv[3]), flags = atoi(argv[4]), bound = atoi(argv[5]); long maxs = atol(argv[6]);
		int failread = argc > 7 ? atoi(argv[7]) : -1;
		struct result ref; static struct outcome o, o2;
		/* explicit DFS stack of prefixes */
		struct item { int n; int *c; } *stack; long sp = 0, cap = 1 << 16, schedules = 0, bad = 0, maxpts = 0, distinct_outcomes = 0, capped = 0;
		uint64_t seen_out[64]; int nseen = 0;
		fail_read_at = failread;
		if (load(argv[2], 1, flags, &ref)) return 3;
		stack = malloc(cap * sizeof *stack);
		stack[sp].n = 0; stack[sp].c = NULL; sp++;
		while (sp > 0) {
			struct item it = stack[--sp]; int i, pre = 0; uint64_t oh;
			if (schedules >= maxs) { capped = 1; free(it.c); continue; }
			run_schedule(argv[2], threads, flags, it.c, it.n, &o);
			schedules++;
			if (o.ntrace > maxpts) maxpts = o.ntrace;
			oh = fnv(fnv(fnv(1469598103934665603ULL, &o.res.bh, 8), &o.res.ih, 8), &o.res.rc, sizeof o.res.rc) ^ o.res.flags ^ ((uint64_t) o.status << 40);
			for (i = 0; i < nseen; i++) if (seen_out[i] == oh) break;
			if (i == nseen && nseen < 64) { seen_out[nseen++] = oh; distinct_outcomes++; }
			if (o.status != 0 || (failread < 0 && !same(&ref, &o.res)) || (failread >= 0 && o.res.rc == 0 && !same(&ref, &o.res)) || o.res.creates == 0) {
				/* replay before reporting */
				int pf[MAXPTS], k; for (k = 0; k < o.ntrace; k++) pf[k] = o.trace[k].choice;
				run_schedule(argv[2], threads, flags, pf, o.ntrace, &o2);
				bad++;
				if (bad <= 10) {
					printf("{\"type\":\"violation\",\"image\":\"%s\",\"threads\":%d,\"flags\":%d,\"fail_read\":%d,\"status\":%d,\"replay_status\":%d,\"replay_same\":%s,\"what\":\"%s\",", argv[2], threads, flags, failread, o.status, o2.status,
					       (o2.status == o.status && same(&o.res, &o2.res)) ? "true" : "false",
					       o.res.creates == 0 ? "threaded path not taken (vacuous geometry)" : o.status == 1077 ? "deadlock" : o.status ? "crash/abort in schedule" : "result differs from single-threaded loading");
					pr("single", &ref); printf(","); pr("threaded", &o.res); printf(",\"choices\":[");
					for (k = 0; k < o.ntrace; k++) printf("%d%s", o.trace[k].choice, k + 1 < o.ntrace ? "," : "");
					printf("]}\n");
				}
				if (o.res.creates == 0) break;
			}
			/* branch: for every point at or after the prefix, every alternative choice whose preemption cost fits */
			for (i = 0; i < it.n; i++) if (o.trace[i].choice != 0 && o.trace[i].run_enabled) pre++;
			for (i = it.n; i < o.ntrace; i++) {
				int alt, cost = pre + (o.trace[i].run_enabled ? 1 : 0);
				if (cost <= bound)
					for (alt = 1; alt < o.trace[i].nen; alt++) {
						int *c = malloc((i + 1) * sizeof(int)), k;
						for (k = 0; k < i; k++) c[k] = o.trace[k].choice;
						c[i] = alt;
						if (sp == cap) { cap *= 2; stack = realloc(stack, cap * sizeof *stack); }
						stack[sp].n = i + 1; stack[sp].c = c; sp++;
					}
				/* the default continuation (choice 0) adds no preemption */
			}
			free(it.c);
		}
		printf("{\"type\":\"summary\",\"image\":\"%s\",\"threads\":%d,\"flags\":%d,\"bound\":%d,\"fail_read\":%d,\"schedules\":%ld,\"max_points\":%ld,\"distinct_outcomes\":%ld,\"capped\":%s,\"violations\":%ld}\n",
		       argv[2], threads, flags, bound, failread, schedules, maxpts, distinct_outcomes, capped ? "true" : "false", bad);
		return 0;
	}
#endif
	fprintf(stderr, "unknown mode\n");
	return 2;
}
