/*
 * iochanx.c -- C17 part A: bounded exhaustive exploration of I/O-channel histories over the tree's unix_io.c.
 *
 * unix_io.c is #included with its libc I/O renamed to the in-memory device of vdev.h.  A state of the
 * search is the channel's *control* state (cache slots: in_use/dirty/block/LRU rank, block size, flags) plus,
 * per 512-byte sector, whether the device already holds the model's bytes.  unix_io.c never branches on data
 * bytes, so two histories with the same control state have the same futures up to data values; every write
 * carries a fresh stamp so a stale byte can never equal the expected one by accident.
 * BFS with de-duplication to a depth bound; states are restored by replaying their history on a fresh
 * channel + device.  Oracle on every transition: reads return the model's bytes; after flush the device
 * equals the model and no write is newer than the last fsync; after close the device equals the model.
 * Fault pass: for every history up to a smaller depth (+ flush + close) and every k, the k-th device write
 * fails once; then some call must have returned an error or the device must still end up equal to the model.
 *
 * usage: iochanx <mode> <depth> <fault_depth> <maxstates> [--replay op,op,...] [--fail k]
 *   mode: cached | nocache | writethrough | bounce | align512
 */
#define _GNU_SOURCE
#include "config.h"
#include <stdint.h>
#include <sys/utsname.h>
#include <sys/resource.h>
#include <pthread.h>
#include "vdev.h"
#include "unix_io.c"

#define DEVBYTES (16 * 1024)
#define NSEC (DEVBYTES / 512)
static const char *mode;
static unsigned char model[DEVBYTES];
static io_channel ch;
static long stamp;

enum { K_R, K_W, K_WB, K_Z, K_D, K_RA, K_BS, K_F, K_CR, K_OFF, K_ON, K_N };
static const char *kn[] = { "read_blk64", "write_blk64", "write_byte", "zeroout", "discard", "readahead", "set_blksize", "flush", "close_reopen", "set_option_cache_off", "set_option_cache_on" };
struct op { int k; long a, b; int probe; };
static struct op ops[400]; static int nops;
static void addop(int k, long a, long b, int probe) { ops[nops].k = k; ops[nops].a = a; ops[nops].b = b; ops[nops].probe = probe; nops++; }
static void opstr(int i, char *b, size_t n)
{
	const struct op *o = &ops[i];
	if (o->k >= K_BS) snprintf(b, n, "%s()", kn[o->k]);
	else snprintf(b, n, "%s(%ld,%ld)", kn[o->k], o->a, o->b);
}
static void gen_ops(void)
{
	static const long blks[] = { 0, 1, 5, 6, 9, 10, 11 }, cnts[] = { 1, 2, 5, -512, -1536 }, cnts34[] = { 3, 4 };	/* 3 and 4: the largest requests that still go through the cache */
	static const long offs[] = { 0, 1023, 1024, 1500, 5130 }, lens[] = { 1, 2, 1024, 1025 };
	static const long zb[] = { 0, 1, 5 }, zn[] = { 1, 2, 5 };
	unsigned i, j;
	for (i = 0; i < 7; i++) for (j = 0; j < 5; j++) addop(K_R, blks[i], cnts[j], cnts[j] == 1);
	for (i = 0; i < 7; i++) for (j = 0; j < 5; j++) addop(K_W, blks[i], cnts[j], 0);
	/* (kept to a handful of positions: every extra operation multiplies the state space) */
	addop(K_R, 9, 3, 0); addop(K_R, 5, 4, 0); addop(K_R, 0, 3, 0); addop(K_R, 8, 4, 0);
	addop(K_W, 9, 3, 0); addop(K_W, 5, 4, 0);
	(void) cnts34;
	for (i = 0; i < 5; i++) for (j = 0; j < 4; j++) addop(K_WB, offs[i], lens[j], 0);
	for (i = 0; i < 3; i++) for (j = 0; j < 3; j++) addop(K_Z, zb[i], zn[j], 0);
	for (i = 0; i < 3; i++) for (j = 0; j < 3; j++) addop(K_D, zb[i], zn[j], 0);
	addop(K_RA, 5, 2, 0);
	addop(K_BS, 0, 0, 0);
	addop(K_F, 0, 0, 1);
	addop(K_CR, 0, 0, 1);
	if (!strcmp(mode, "cached")) { addop(K_OFF, 0, 0, 0); addop(K_ON, 0, 0, 0); }	/* the cache switched off and on in mid-history (rw_bitmaps does this around its threads) */
}

static char vmsg[400];
static int open_channel(void)
{
	int flags = IO_FLAG_RW;
	errcode_t rc;
	if (!strcmp(mode, "bounce")) flags |= IO_FLAG_FORCE_BOUNCE;
	rc = unix_io_manager->open("dev", flags, &ch);
	if (rc) { snprintf(vmsg, sizeof vmsg, "open failed %ld", (long) rc); return 1; }
	if (!strcmp(mode, "nocache")) { rc = io_channel_set_options(ch, "cache=off"); if (rc) { snprintf(vmsg, sizeof vmsg, "cache=off failed"); return 1; } }
	if (!strcmp(mode, "writethrough")) ch->flags |= CHANNEL_FLAGS_WRITETHROUGH;
	if (!strcmp(mode, "align512")) {
		struct unix_private_data *d = ch->private_data;
		ch->align = 512; vdev_require_align = 512;
		if (alloc_cache(ch, d)) abort();	/* what unix_open_channel does when the device reports a DIO alignment */
	}
	return 0;
}
static void fresh(void)
{
	int i;
	/* release the channel of the previous history (its device is discarded anyway): without this every replayed history leaks a channel
	 * with its cache buffers, which adds up to tens of GB at depth 5 */
	if (ch) { vdev_fail_at = -1; vdev_fail_sticky = 0; io_channel_close(ch); ch = NULL; }
	vdev_reset_all(); vdev_require_align = 0;
	struct vdev_file *f = vdev_create("dev", DEVBYTES);
	for (i = 0; i < DEVBYTES; i++) f->cur[i] = f->durable[i] = model[i] = (unsigned char)(0x40 + (i >> 9) + (i & 1));
	stamp = 0; ch = NULL;
}

/* apply one op; returns 0 ok, 1 violation (vmsg), -1 not enabled; *err is set when the API returned an error */
static int apply(const struct op *o, int check, int *err)
{
	static unsigned char *buf; unsigned char wanted[8192];
	long bs = ch->block_size, size, off, i;
	errcode_t rc = 0;
	struct vdev_file *f = &vdev_files[0];
	if (!buf && posix_memalign((void **) &buf, 4096, 16384)) abort();
	vmsg[0] = 0;
	switch (o->k) {
	case K_R: case K_W:
		size = o->b < 0 ? -o->b : o->b * bs; off = o->a * bs;
		if (off + size > DEVBYTES) return -1;
		if (!strcmp(mode, "align512") && (size % 512)) return -1;
		if (o->k == K_R) {
			memset(buf, 0xEE, size);
			rc = io_channel_read_blk64(ch, o->a, o->b, buf);
			if (rc) { *err = 1; if (check) { snprintf(vmsg, sizeof vmsg, "read returned error %ld", (long) rc); return 1; } return 0; }
			if (check && memcmp(buf, model + off, size)) {
				for (i = 0; i < size && buf[i] == model[off + i]; i++) ;
				snprintf(vmsg, sizeof vmsg, "read returned stale/wrong data at byte offset %ld of the device (got 0x%02x, most recently written 0x%02x)", off + i, buf[i], model[off + i]);
				return 1;
			}
			return 0;
		}
		stamp++;
		for (i = 0; i < size; i++) buf[i] = (unsigned char)(0x80 | ((stamp * 7 + (i >> 9)) & 0x7f));
		rc = io_channel_write_blk64(ch, o->a, o->b, buf);
		if (rc) { *err = 1; if (check) { snprintf(vmsg, sizeof vmsg, "write returned error %ld", (long) rc); return 1; } return 0; }
		memcpy(model + off, buf, size);
		return 0;
	case K_WB:
		if (o->a + o->b > DEVBYTES) return -1;
		if (!strcmp(mode, "align512")) return -1;	/* unix_write_byte refuses on aligned channels by design */
		stamp++;
		for (i = 0; i < o->b; i++) wanted[i] = (unsigned char)(0x80 | ((stamp * 7 + 3) & 0x7f));
		rc = io_channel_write_byte(ch, o->a, o->b, wanted);
		if (rc == EXT2_ET_UNIMPLEMENTED) return 0;	/* documented refusal (aligned/bounce channels); nothing may have changed: later reads check that */
		if (rc) { *err = 1; if (check) { snprintf(vmsg, sizeof vmsg, "write_byte returned error %ld", (long) rc); return 1; } return 0; }
		memcpy(model + o->a, wanted, o->b);
		return 0;
	case K_Z: case K_D:
		size = o->b * bs; off = o->a * bs;
		if (off + size > DEVBYTES) return -1;
		rc = o->k == K_Z ? io_channel_zeroout(ch, o->a, o->b) : io_channel_discard(ch, o->a, o->b);
		if (rc == EXT2_ET_UNIMPLEMENTED) return 0;
		if (rc) { *err = 1; if (check) { snprintf(vmsg, sizeof vmsg, "%s returned error %ld", kn[o->k], (long) rc); return 1; } return 0; }
		if (o->k == K_D && !(ch->flags & CHANNEL_FLAGS_DISCARD_ZEROES)) { snprintf(vmsg, sizeof vmsg, "file-backed channel without DISCARD_ZEROES"); return 1; }
		memset(model + off, 0, size);
		return 0;
	case K_RA:
		io_channel_cache_readahead(ch, o->a, o->b);
		return 0;
	case K_BS:
		rc = io_channel_set_blksize(ch, bs == 1024 ? 2048 : 1024);
		if (rc) { *err = 1; if (check) { snprintf(vmsg, sizeof vmsg, "set_blksize returned error %ld", (long) rc); return 1; } }
		return 0;
	case K_F:
		rc = io_channel_flush(ch);
		if (rc) { *err = 1; if (check) { snprintf(vmsg, sizeof vmsg, "flush returned error %ld", (long) rc); return 1; } return 0; }
		if (check && memcmp(f->cur, model, DEVBYTES)) {
			for (i = 0; i < DEVBYTES && f->cur[i] == model[i]; i++) ;
			snprintf(vmsg, sizeof vmsg, "after flush the backing file differs from the written data at byte %ld", i); return 1;
		}
		if (check && f->dirty_since_fsync) { snprintf(vmsg, sizeof vmsg, "flush returned without an fsync after the last device write"); return 1; }
		return 0;
	case K_OFF: case K_ON:
		rc = io_channel_set_options(ch, o->k == K_OFF ? "cache=off" : "cache=on");
		if (rc) { *err = 1; if (check) { snprintf(vmsg, sizeof vmsg, "set_options returned error %ld", (long) rc); return 1; } }
		return 0;
	case K_CR: {
		long bsz = ch->block_size;
		rc = io_channel_close(ch); ch = NULL;
		if (rc) { *err = 1; if (check) { snprintf(vmsg, sizeof vmsg, "close returned error %ld", (long) rc); return 1; } }
		if (check && !rc && memcmp(f->cur, model, DEVBYTES)) {
			for (i = 0; i < DEVBYTES && f->cur[i] == model[i]; i++) ;
			snprintf(vmsg, sizeof vmsg, "after close the backing file differs from the written data at byte %ld", i); return 1;
		}
		if (open_channel()) return 1;
		if (bsz != 1024 && io_channel_set_blksize(ch, bsz)) { snprintf(vmsg, sizeof vmsg, "set_blksize after reopen failed"); return 1; }
		return 0; }
	}
	return -1;
}

/* canonical control state */
struct canon { unsigned char b[96]; int n; };
static void canon_of(struct canon *c)
{
	struct unix_private_data *d = ch->private_data;
	struct vdev_file *f = &vdev_files[0];
	int i, j; uint32_t secmask = 0;
	c->n = 0;
	c->b[c->n++] = ch->block_size >> 9; c->b[c->n++] = ch->flags & 0xff; c->b[c->n++] = (ch->flags >> 8) & 0xff;
	c->b[c->n++] = d->flags & 0xff; c->b[c->n++] = (d->flags >> 8) & 0xff; c->b[c->n++] = f->dirty_since_fsync;
	for (i = 0; i < CACHE_SIZE; i++) {
		struct unix_cache *e = &d->cache[i]; int rank = 0;
		if (!e->in_use) { c->b[c->n++] = 0xff; continue; }
		for (j = 0; j < CACHE_SIZE; j++) if (d->cache[j].in_use && d->cache[j].access_time < e->access_time) rank++;
		c->b[c->n++] = (unsigned char) e->block; c->b[c->n++] = (unsigned char)(rank | (e->dirty << 4) | (e->write_err << 5));
		/* does the cached copy equal the model? (a stale clean entry is part of the control state of a *bug*, keep it) */
		c->b[c->n++] = (e->block + 1) * ch->block_size <= DEVBYTES && !memcmp(e->buf, model + e->block * ch->block_size, ch->block_size);
	}
	for (i = 0; i < NSEC; i++) if (!memcmp(f->cur + i * 512, model + i * 512, 512)) secmask |= 1u << i;
	memcpy(c->b + c->n, &secmask, 4); c->n += 4;
}


/* ---- snapshot / restore of the complete harness state (device, model, channel) */
struct snap {
	unsigned char cur[DEVBYTES], durable[DEVBYTES], model[DEVBYTES];
	struct vdev_file f; long stamp, wc;
	int bs, chflags, chalign; struct unix_private_data d;
	unsigned char bufs[CACHE_SIZE][2048], bounce[2048]; int has_bounce;
};
static void take_snap(struct snap *sn)
{
	struct unix_private_data *d = ch->private_data; int i;
	memcpy(sn->cur, vdev_files[0].cur, DEVBYTES); memcpy(sn->durable, vdev_files[0].durable, DEVBYTES); memcpy(sn->model, model, DEVBYTES);
	sn->f = vdev_files[0]; sn->stamp = stamp; sn->wc = vdev_write_calls;
	sn->bs = ch->block_size; sn->chflags = ch->flags; sn->chalign = ch->align; sn->d = *d;
	for (i = 0; i < CACHE_SIZE; i++) memcpy(sn->bufs[i], d->cache[i].buf, sn->bs);
	sn->has_bounce = d->bounce != NULL; if (d->bounce) memcpy(sn->bounce, d->bounce, sn->bs);
}
static void restore_snap(const struct snap *sn)
{
	struct unix_private_data *d; int i; unsigned char *c, *du;
	if (!ch) { if (open_channel()) abort(); }
	d = ch->private_data;
	c = vdev_files[0].cur; du = vdev_files[0].durable;
	vdev_files[0] = sn->f; vdev_files[0].cur = c; vdev_files[0].durable = du;
	memcpy(c, sn->cur, DEVBYTES); memcpy(du, sn->durable, DEVBYTES); memcpy(model, sn->model, DEVBYTES);
	stamp = sn->stamp; vdev_write_calls = sn->wc;
	ch->flags = sn->chflags; ch->align = sn->chalign;
	if (ch->block_size != sn->bs || (sn->has_bounce && !d->bounce)) { ch->block_size = sn->bs; free_cache(d); if (alloc_cache(ch, d)) abort(); }
	for (i = 0; i < CACHE_SIZE; i++) {
		char *b = d->cache[i].buf;
		d->cache[i] = sn->d.cache[i]; d->cache[i].buf = b; memcpy(b, sn->bufs[i], sn->bs);
	}
	d->flags = sn->d.flags; d->access_time = sn->d.access_time; d->offset = sn->d.offset;
	if (sn->has_bounce && d->bounce) memcpy(d->bounce, sn->bounce, sn->bs);
}

/* run a history from scratch. returns index of the violating op (>=0) or -1 ; *anyerr = some API call returned an error */
static int vdev_sticky_next;
static int silent_at;	/* fault runs: index of the first flush/close that returned success with a stale backing file, or -1 */
static int run_history(const int *h, int n, long fail_at, int check, int *anyerr, int verbose)
{
	int i, r, e;
	silent_at = -1;
	fresh();
	if (open_channel()) return 0;
	vdev_fail_at = fail_at; vdev_write_calls = 0; vdev_failures = 0; vdev_fail_sticky = vdev_sticky_next;
	*anyerr = 0;
	for (i = 0; i < n; i++) {
		char b[64];
		e = 0;
		r = apply(&ops[h[i]], check && !*anyerr, &e);
		if (e) *anyerr = 1;
		/* fault runs: a flush or close that reports success while no earlier call reported an error must have made the backing file current */
		if (fail_at > 0 && !check && r == 0 && !*anyerr && silent_at < 0 && (ops[h[i]].k == K_F || ops[h[i]].k == K_CR) &&
		    memcmp(vdev_files[0].cur, model, DEVBYTES)) silent_at = i;
		if (verbose) { opstr(h[i], b, sizeof b); printf("%-28s -> %s %s%s\n", b, r > 0 ? "VIOLATION:" : r < 0 ? "not enabled" : "ok", vmsg, e ? " (API returned an error)" : ""); }
		if (r > 0) return i;
		if (r < 0 && !verbose) return -2 - i;	/* disabled op: caller skips */
	}
	return -1;
}

struct st { struct canon c; int parent, op, depth; };
static struct st *sts; static long nst, capst; static int *htab; static long hcap;
static uint64_t hashc(const struct canon *c) { uint64_t h = 1469598103934665603ULL; int i; for (i = 0; i < c->n; i++) { h ^= c->b[i]; h *= 1099511628211ULL; } return h; }
static int hist_of(long s, int *h)
{
	int n = 0, i; int tmp[64];
	while (s > 0) { tmp[n++] = sts[s].op; s = sts[s].parent; }
	for (i = 0; i < n; i++) h[i] = tmp[n - 1 - i];
	return n;
}
static void print_hist(const char *key, const int *h, int n)
{
	int i; char b[64];
	printf("\"%s\":[", key);
	for (i = 0; i < n; i++) { opstr(h[i], b, sizeof b); printf("\"%s\"%s", b, i + 1 < n ? "," : ""); }
	printf("],\"%s_ids\":[", key);
	for (i = 0; i < n; i++) printf("%d%s", h[i], i + 1 < n ? "," : "");
	printf("]");
}

static struct snap sn;
int main(int argc, char **argv)
{
	int depth, fdepth, h[64], n, anyerr, r, maxd = 0, capped = 0;
	long maxstates, i, transitions = 0, viol = 0, faultruns = 0, faultviol = 0, frontier = 0, kviol[K_N] = {0};
	if (argc < 5) { fprintf(stderr, "usage\n"); return 2; }
	mode = argv[1]; depth = atoi(argv[2]); fdepth = atoi(argv[3]); maxstates = atol(argv[4]);
	gen_ops();
	if (argc >= 7 && !strcmp(argv[5], "--replay")) {
		char *tok = strtok(argv[6], ","); long fail = -1;
		n = 0; while (tok) { h[n++] = atoi(tok); tok = strtok(NULL, ","); }
		if (argc >= 9 && !strcmp(argv[7], "--fail")) fail = atol(argv[8]);
		if (argc >= 10 && !strcmp(argv[9], "--sticky")) vdev_sticky_next = argc >= 11 ? atoi(argv[10]) : 1;
		r = run_history(h, n, fail, fail < 0, &anyerr, 1);
		if (fail >= 0) {
			int bad = vdev_failures && ((!anyerr && memcmp(vdev_files[0].cur, model, DEVBYTES)) || silent_at >= 0);
			if (silent_at >= 0) printf("operation #%d (flush/close) returned success, no error had been reported, but the backing file was not current\n", silent_at);
			printf("injected failures: %ld, error reported to a caller: %s, device equals written data: %s -> %s\n", vdev_failures, anyerr ? "yes" : "no",
			       memcmp(vdev_files[0].cur, model, DEVBYTES) ? "no" : "yes", bad ? "VIOLATION" : "ok");
			return bad;
		}
		return r >= 0;
	}
	capst = maxstates + 1; sts = malloc(capst * sizeof(*sts));
	for (hcap = 1024; hcap < capst * 2; hcap <<= 1) ;
	htab = malloc(hcap * sizeof(int)); memset(htab, 0xff, hcap * sizeof(int));
	fresh(); if (open_channel()) { fprintf(stderr, "%s\n", vmsg); return 3; }
	canon_of(&sts[0].c); sts[0].parent = -1; sts[0].op = -1; sts[0].depth = 0; nst = 1;
	htab[hashc(&sts[0].c) & (hcap - 1)] = 0;

	for (i = 0; i < nst; i++) {
		int oi, base = hist_of(i, h), probe_only = sts[i].depth >= depth, have_snap = 0;
		if (probe_only) frontier++;
		for (oi = 0; oi < nops; oi++) {
			struct canon c; uint64_t hv; int found = 0;
			if (probe_only && !ops[oi].probe) continue;
			h[base] = oi;
			if (!have_snap) {
				r = run_history(h, base, -1, 1, &anyerr, 0);
				if (r != -1) { fprintf(stderr, "replay of a stored history diverged\n"); return 3; }
				canon_of(&c);
				if (c.n != sts[i].c.n || memcmp(c.b, sts[i].c.b, c.n)) { fprintf(stderr, "replay reached a different state\n"); return 3; }
				take_snap(&sn); have_snap = 1;
			} else restore_snap(&sn);
			{ int e = 0; r = apply(&ops[oi], 1, &e); if (r < 0) continue; r = r > 0 ? base : -1; }
			transitions++;
			if (r >= 0) {
				viol++;
				if (kviol[ops[oi].k]++ < 20) {
					char *p; for (p = vmsg; *p; p++) if (*p == '"' || *p == '\\') *p = '\'';
					printf("{\"type\":\"violation\",\"kind\":\"%s\",\"msg\":\"%s\",", kn[ops[oi].k], vmsg); print_hist("history", h, base + 1); printf("}\n");
				}
				continue;
			}
			if (probe_only) continue;
			canon_of(&c);
			hv = hashc(&c) & (hcap - 1);
			while (htab[hv] >= 0) { struct st *s = &sts[htab[hv]]; if (s->c.n == c.n && !memcmp(s->c.b, c.b, c.n)) { found = 1; break; } hv = (hv + 1) & (hcap - 1); }
			if (found) continue;
			if (nst >= maxstates) { capped = 1; continue; }
			sts[nst].c = c; sts[nst].parent = i; sts[nst].op = oi; sts[nst].depth = sts[i].depth + 1;
			if (sts[nst].depth > maxd) maxd = sts[nst].depth;
			htab[hv] = nst++;
		}
	}
	/* fault pass */
	{
		int fop = -1, cop = -1, oi;
		for (oi = 0; oi < nops; oi++) { if (ops[oi].k == K_F) fop = oi; if (ops[oi].k == K_CR) cop = oi; }
		for (i = 0; i < nst && fdepth >= 0; i++) {
			long total, k;
			if (sts[i].depth > fdepth) continue;
			n = hist_of(i, h); h[n++] = fop; h[n++] = cop;
			run_history(h, n, -1, 0, &anyerr, 0);
			total = vdev_write_calls;
			for (k = 1; k <= total; k++) {
				int sticky;
				for (sticky = 0; sticky < 3; sticky++) {
					vdev_sticky_next = sticky;
					run_history(h, n, k, 0, &anyerr, 0);
					faultruns++;
					if (vdev_failures && ((!anyerr && memcmp(vdev_files[0].cur, model, DEVBYTES)) || silent_at >= 0)) {
						faultviol++;
						if (faultviol <= 20) { printf("{\"type\":\"violation\",\"kind\":\"silent_write_failure\",\"msg\":\"device write %ld failed (%s); %s\",\"fail\":%ld,\"sticky\":%d,", k, sticky == 1 ? "and every later one" : sticky == 2 ? "together with the next one" : "once",
							silent_at >= 0 ? "a later flush/close returned success although no call had reported an error and the backing file was not current" : "no call returned an error and the backing file differs from the written data", k, sticky); print_hist("history", h, n); printf("}\n"); }
					}
				}
			}
		}
	}
	n = hist_of(nst - 1, h);
	printf("{\"type\":\"summary\",\"mode\":\"%s\",\"depth\":%d,\"fault_depth\":%d,\"ops\":%d,\"states\":%ld,\"transitions\":%ld,\"max_depth\":%d,\"frontier_states_probed\":%ld,"
	       "\"capped\":%s,\"violations\":%ld,\"fault_runs\":%ld,\"fault_violations\":%ld,", mode, depth, fdepth, nops, nst, transitions, maxd, frontier, capped ? "true" : "false", viol, faultruns, faultviol);
	print_hist("deepest_history", h, n); printf("}\n");
	return 0;
}
