/*
 * csumprobe.c -- C14(b)(i): walk every checksummed metadata object of an image through libext2fs's *verifying* read
 * paths and report each error code.  usage: csumprobe <image>
 * Output: one line per failing call: "ERR <where> <errcode> <message>", then "DONE <objects visited>".
 */
#include "config.h"
#include <stdio.h>
#include <stdlib.h>
#include <string.h>
#include "ext2fs/ext2_fs.h"
#include "ext2fs/ext2fs.h"

static long visited;
static void err(const char *where, unsigned long id, errcode_t rc)
{
	printf("ERR %s %lu %ld %s\n", where, id, (long) rc, error_message(rc));
}
static int dir_cb(ext2_ino_t dir, int entry, struct ext2_dir_entry *d, int off, int bs, char *buf, void *priv)
{
	(void) dir; (void) entry; (void) d; (void) off; (void) bs; (void) buf; (void) priv;
	return 0;
}
static void quiet_hook(const char *w, errcode_t c, const char *f, va_list a) { (void) w; (void) c; (void) f; (void) a; }

int main(int argc, char **argv)
{
	ext2_filsys fs; errcode_t rc; ext2_ino_t ino; dgrp_t g;
	if (argc < 2) return 2;
	set_com_err_hook(quiet_hook);
	add_error_table(&et_ext2_error_table);
	rc = ext2fs_open(argv[1], EXT2_FLAG_64BITS, 0, 0, unix_io_manager, &fs);
	if (rc) { err("open", 0, rc); printf("DONE 0\n"); return 0; }
	visited++;
	for (g = 0; g < fs->group_desc_count; g++) {
		visited++;
		if (!ext2fs_group_desc_csum_verify(fs, g)) err("group_desc", g, EXT2_ET_BAD_DESC_SIZE - EXT2_ET_BAD_DESC_SIZE + 1);
	}
	rc = ext2fs_read_bitmaps(fs);
	if (rc) err("read_bitmaps", 0, rc);
	visited += 2 * fs->group_desc_count;
	if (ext2fs_has_feature_mmp(fs->super)) {
		char *buf = NULL;
		if (!ext2fs_get_mem(fs->blocksize, &buf)) {
			rc = ext2fs_mmp_read(fs, fs->super->s_mmp_block, buf);
			if (rc) err("mmp", 0, rc);
			ext2fs_free_mem(&buf); visited++;
		}
	}
	for (ino = 1; ino <= fs->super->s_inodes_count; ino++) {
		struct ext2_inode_large in;
		if (fs->inode_map && ino >= EXT2_FIRST_INODE(fs->super) && !ext2fs_test_inode_bitmap2(fs->inode_map, ino)) continue;
		rc = ext2fs_read_inode_full(fs, ino, (struct ext2_inode *) &in, sizeof in);
		visited++;
		if (rc) { err("inode", ino, rc); continue; }
		if (in.i_links_count == 0 && ino >= EXT2_FIRST_INODE(fs->super)) continue;
		if (in.i_mode == 0) continue;
		if ((in.i_flags & EXT4_EXTENTS_FL) && !(in.i_flags & EXT4_INLINE_DATA_FL)) {
			ext2_extent_handle_t h; struct ext2fs_extent e;
			rc = ext2fs_extent_open2(fs, ino, (struct ext2_inode *) &in, &h);
			if (rc) err("extent_open", ino, rc);
			else {
				rc = ext2fs_extent_get(h, EXT2_EXTENT_ROOT, &e);
				while (!rc) { visited++; rc = ext2fs_extent_get(h, EXT2_EXTENT_NEXT, &e); }
				if (rc != EXT2_ET_EXTENT_NO_NEXT && rc != EXT2_ET_NO_CURRENT_NODE) err("extent_walk", ino, rc);
				ext2fs_extent_free(h);
			}
		}
		if (LINUX_S_ISDIR(in.i_mode)) {
			rc = ext2fs_dir_iterate2(fs, ino, 0, NULL, dir_cb, NULL);
			visited++;
			if (rc) err("dir_iterate", ino, rc);
		}
		{
			struct ext2_xattr_handle *xh;
			rc = ext2fs_xattrs_open(fs, ino, &xh);
			if (!rc) {
				rc = ext2fs_xattrs_read(xh);
				visited++;
				if (rc) err("xattrs_read", ino, rc);
				ext2fs_xattrs_close(&xh);
			}
		}
	}
	printf("DONE %ld\n", visited);
	fs->flags &= ~EXT2_FLAG_DIRTY;
	ext2fs_close_free(&fs);
	return 0;
}
