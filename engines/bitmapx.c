/*
 * bitmapx.c -- C16: explicit-state exploration (closure) of the libext2fs bitmap backends.
 *
 * The harness #includes the tree's blkmap64_rb.c / blkmap64_ba.c / gen_bitmap.c so that it can
 * read and rebuild the *complete private state* of a bitmap object (extent tree shape, colours,
 * cursors / array bytes).  A state of the search is that private state plus the tri-state
 * reference model; BFS runs until no new state appears (closure) or a state cap is hit.
 * Every transition calls the real public API and compares every return value / out parameter
 * with a reference set kept in a uint64 mask; after every transition the private state is decoded
 * and compared with the reference (abstraction check) and the rbtree invariants are verified.
 *
 * usage: bitmapx <backend:ba|rb|b32> <start> <end> <real_end> <cluster_bits (+4 = include resize/fudge ops)> <maxstates> [--replay op,op,...]
 * output: one JSON object per line on stdout ("violation" lines, then a final "summary" line).
 */
#define _GNU_SOURCE
#include "config.h"
#include <stdio.h>
#include <stdlib.h>
#include <string.h>
#include <stdint.h>
#include <errno.h>

#include "blkmap64_rb.c"
/* accessors compiled in separate translation units that include the tree's blkmap64_ba.c / gen_bitmap.c */
extern char *x_ba_array(ext2fs_generic_bitmap b);
extern char *x_32_array(ext2fs_generic_bitmap b);
extern unsigned x_32_end(ext2fs_generic_bitmap b);
extern unsigned x_32_real(ext2fs_generic_bitmap b);

enum { B_BA, B_RB, B_32 };
static int backend, cbits, geom;
static unsigned bstart, bend0, breal0;
static struct struct_ext2_filsys fakefs;
static struct ext2_super_block fakesb;

#define MAXN 40
typedef uint64_t mask_t;

/* ------------------------------------------------------------------ reference model */
struct model {
	unsigned end, real_end;
	mask_t val, known;	/* bit i <-> element bstart+i ; only bits <= real_end-bstart meaningful */
};
static inline mask_t rng(unsigned lo, unsigned hi)	/* elements lo..hi inclusive, absolute */
{
	mask_t m = 0; unsigned i;
	if (hi < lo) return 0;
	for (i = lo; i <= hi; i++) m |= (mask_t)1 << (i - bstart);
	return m;
}

/* ------------------------------------------------------------------ ops */
enum { O_MARK, O_UNMARK, O_TEST, O_MARKR, O_UNMARKR, O_TESTR, O_FFZ, O_FFS, O_GETR, O_SETR, O_CLEAR, O_COPY,
       O_RESIZE, O_CMP_EQ, O_CMP_NE, O_PAD, O_FUDGE, O_NKINDS };
static const char *kname[] = { "mark", "unmark", "test", "mark_range", "unmark_range", "test_clear_range", "find_first_zero",
	"find_first_set", "get_range", "set_range", "clear", "copy", "resize", "compare_equal", "compare_differs_at",
	"set_padding", "fudge_end" };
struct op { int k; uint64_t a, b; uint32_t c; };
static struct op *ops; static int nops, capops;
static void addop(int k, uint64_t a, uint64_t b, uint32_t c)
{
	if (nops == capops) { capops = capops ? capops * 2 : 1024; ops = realloc(ops, capops * sizeof(*ops)); }
	ops[nops].k = k; ops[nops].a = a; ops[nops].b = b; ops[nops].c = c; nops++;
}
static void opstr(const struct op *o, char *buf, size_t n)
{
	switch (o->k) {
	case O_MARK: case O_UNMARK: case O_TEST: case O_CMP_NE: case O_FUDGE:
		snprintf(buf, n, "%s(%llu)", kname[o->k], (unsigned long long)o->a); break;
	case O_SETR:
		snprintf(buf, n, "%s(%llu,%llu,0x%x)", kname[o->k], (unsigned long long)o->a, (unsigned long long)o->b, o->c); break;
	case O_CLEAR: case O_COPY: case O_CMP_EQ: case O_PAD:
		snprintf(buf, n, "%s()", kname[o->k]); break;
	default:
		snprintf(buf, n, "%s(%llu,%llu)", kname[o->k], (unsigned long long)o->a, (unsigned long long)o->b);
	}
}

static void gen_ops(void)
{
	unsigned maxreal = geom ? breal0 + 3 : breal0;
	unsigned u, v, s;
	unsigned cs = 1u << cbits;
	static const uint32_t pat16[] = { 0x0000, 0xffff, 0x00ff, 0xff00, 0x0180, 0x8001, 0xa5c3, 0x7ffe, 0x0ff0, 0xfe7f };
	/* single-bit ops: block argument = first and last block of each cluster */
	for (u = bstart; u <= maxreal; u++) {
		addop(O_MARK, (uint64_t)u << cbits, 0, 0);
		addop(O_UNMARK, (uint64_t)u << cbits, 0, 0);
		addop(O_TEST, (uint64_t)u << cbits, 0, 0);
		if (cbits) {
			addop(O_MARK, ((uint64_t)u << cbits) + cs - 1, 0, 0);
			addop(O_UNMARK, ((uint64_t)u << cbits) + cs - 1, 0, 0);
			addop(O_TEST, ((uint64_t)u << cbits) + cs - 1, 0, 0);
		}
	}
	/* range ops: (block, num) covering clusters u..v, minimal and maximal spelling */
	for (u = bstart; u <= maxreal; u++)
		for (v = u; v <= maxreal; v++) {
			uint64_t b0 = (uint64_t)u << cbits, nmax = (((uint64_t)v + 1) << cbits) - b0;
			int k;
			for (k = O_MARKR; k <= O_TESTR; k++) {
				addop(k, b0, nmax, 0);
				if (cbits) {
					addop(k, b0 + 1, nmax - 1, 0);			/* unaligned start */
					addop(k, b0, nmax - cs + 1, 0);			/* unaligned end */
					if (v > u) addop(k, b0 + cs - 1, nmax - 2 * (cs - 1), 0);	/* minimal spelling: last block of cluster u .. first block of cluster v */
				}
			}
			addop(O_FFZ, b0, (((uint64_t)v + 1) << cbits) - 1, 0);
			addop(O_FFS, b0, (((uint64_t)v + 1) << cbits) - 1, 0);
			if (cbits) {	/* unaligned start; end = first block of cluster v (last block when u == v) */
				addop(O_FFZ, b0 + 1, ((uint64_t)v << cbits) + (v > u ? 0 : cs - 1), 0);
				addop(O_FFS, b0 + 1, ((uint64_t)v << cbits) + (v > u ? 0 : cs - 1), 0);
			}
		}
	/* bulk get: aligned start, every length */
	for (s = bstart; s <= maxreal; s += 8)
		for (v = 1; s + v - 1 <= maxreal; v++)
			addop(O_GETR, s, v, 0);
	/* bulk set: aligned start, length 8 (all 256 contents) and 16 (patterns) */
	for (s = bstart; s + 7 <= maxreal; s += 8) {
		static const unsigned char pat8[] = { 0x00, 0xff, 0x01, 0x02, 0x04, 0x08, 0x10, 0x20, 0x40, 0x80, 0xfe, 0xfd, 0xfb, 0xf7, 0xef,
			0xdf, 0xbf, 0x7f, 0x0f, 0xf0, 0x3c, 0x7e, 0x81, 0xc3, 0xe7, 0x55, 0xaa, 0x33, 0xcc, 0x03, 0xc0, 0x18, 0x5a, 0xa5, 0x69, 0x96 };
		if (geom) { for (v = 0; v < 12; v++) addop(O_SETR, s, 8, pat8[v * 3]); }
		else if (breal0 - bstart < 12) { for (v = 0; v < 256; v++) addop(O_SETR, s, 8, v); }
		else for (v = 0; v < sizeof(pat8); v++) addop(O_SETR, s, 8, pat8[v]);
		if (s + 15 <= maxreal)
			for (v = 0; v < sizeof(pat16) / sizeof(pat16[0]); v++)
				addop(O_SETR, s, 16, pat16[v]);
	}
	addop(O_CLEAR, 0, 0, 0);
	addop(O_COPY, 0, 0, 0);
	addop(O_PAD, 0, 0, 0);
	addop(O_CMP_EQ, 0, 0, 0);
	for (u = bstart; u <= maxreal; u++)
		addop(O_CMP_NE, u, 0, 0);
	/* resize / fudge: ends from a small set around the initial geometry */
	if (geom) {
		unsigned ends[8], ne = 0, reals[4], nr = 0, i, j;
		ends[ne++] = bend0; if (bend0 > bstart + 2) ends[ne++] = bend0 - 2;
		if (bend0 > bstart) ends[ne++] = bend0 - 1;
		if (bend0 + 1 <= maxreal) ends[ne++] = bend0 + 1;
		if (bend0 + 3 <= maxreal) ends[ne++] = bend0 + 3;
		reals[nr++] = breal0; if (breal0 + 3 <= maxreal) reals[nr++] = breal0 + 3;
		if (breal0 > bend0 + 1) reals[nr++] = breal0 - 1;
		for (i = 0; i < ne; i++)
			for (j = 0; j < nr; j++)
				if (ends[i] <= reals[j])
					addop(O_RESIZE, ends[i], reals[j], 0);
		for (u = bend0 > bstart + 1 ? bend0 - 1 : bstart; u <= maxreal; u++)
			addop(O_FUDGE, u, 0, 0);
	}
}

/* ------------------------------------------------------------------ the object under test */
static ext2fs_generic_bitmap obj;
static errcode_t magic64(void) { return cbits ? EXT2_ET_MAGIC_BLOCK_BITMAP64 : EXT2_ET_MAGIC_BLOCK_BITMAP64; }
static ext2fs_generic_bitmap_64 O64(void) { return (ext2fs_generic_bitmap_64) obj; }

static errcode_t new_obj(int be, unsigned end, unsigned real_end, ext2fs_generic_bitmap *ret)
{
	if (be == B_32)
		return ext2fs_make_generic_bitmap(EXT2_ET_MAGIC_BLOCK_BITMAP, &fakefs, bstart, end, real_end, "b32", 0, ret);
	return ext2fs_alloc_generic_bmap(&fakefs, magic64(), be == B_BA ? EXT2FS_BMAP64_BITARRAY : EXT2FS_BMAP64_RBTREE,
					 bstart, end, real_end, "x", ret);
}
static unsigned obj_end(void) { return backend == B_32 ? x_32_end(obj) : (unsigned) O64()->end; }
static unsigned obj_real(void) { return backend == B_32 ? x_32_real(obj) : (unsigned) O64()->real_end; }

/* ---- canonical serialisation of the complete private state */
#define CANON_MAX 256
struct canon { unsigned char b[CANON_MAX]; int n; };

static int rb_index(struct rb_root *root, struct bmap_rb_extent *e)
{
	struct rb_node *n; int i = 0;
	if (!e) return 0xff;
	for (n = ext2fs_rb_first(root); n; n = ext2fs_rb_next(n), i++)
		if (node_to_extent(n) == e) return i;
	return 0xfe;	/* dangling cursor */
}
static void rb_ser(struct rb_node *n, struct canon *c)
{
	struct bmap_rb_extent *e;
	if (!n) { c->b[c->n++] = 0xff; return; }
	e = node_to_extent(n);
	c->b[c->n++] = (unsigned char) e->start; c->b[c->n++] = (unsigned char) e->count;
	c->b[c->n++] = ext2fs_rb_color(n);
	rb_ser(n->rb_left, c); rb_ser(n->rb_right, c);
}
static void canon_of(const struct model *m, struct canon *c)
{
	c->n = 0;
	c->b[c->n++] = obj_end(); c->b[c->n++] = obj_real();
	memcpy(c->b + c->n, &m->known, 8); c->n += 8;
	if (backend == B_RB) {
		struct ext2fs_rb_private *bp = O64()->private;
		c->b[c->n++] = rb_index(&bp->root, bp->wcursor);
		c->b[c->n++] = rb_index(&bp->root, bp->rcursor);
		{	/* kept even while rcursor is NULL: a later hit could pair a stale successor with a new cursor.  A successor that dangles while
			 * rcursor is NULL (rb_resize_bmap frees extents without touching it) is never dereferenced by the tree's code and is recorded as NULL */
			unsigned char rn = rb_index(&bp->root, bp->rcursor_next);
			c->b[c->n++] = (rn == 0xfe && !bp->rcursor) ? 0xff : rn;
		}
		rb_ser(bp->root.rb_node, c);
	} else {
		char *arr = backend == B_BA ? x_ba_array(obj) : x_32_array(obj);
		int sz = (obj_real() - bstart) / 8 + 1;
		memcpy(c->b + c->n, arr, sz); c->n += sz;
	}
	if (c->n > CANON_MAX) abort();
}
/* rebuild an object from a canonical form */
static struct rb_node *rb_deser(const unsigned char **p, struct rb_node *parent, struct bmap_rb_extent **byidx_pre, int *npre)
{
	struct bmap_rb_extent *e; struct rb_node *n;
	if (**p == 0xff) { (*p)++; return NULL; }
	if (ext2fs_get_mem(sizeof(*e), &e)) abort();
	e->start = (*p)[0]; e->count = (*p)[1];
	n = &e->node; n->rb_parent_color = (uintptr_t) parent | (*p)[2];
	*p += 3;
	byidx_pre[(*npre)++] = e;
	n->rb_left = rb_deser(p, n, byidx_pre, npre);
	n->rb_right = rb_deser(p, n, byidx_pre, npre);
	return n;
}
static struct bmap_rb_extent *rb_nth(struct rb_root *root, int i)
{
	struct rb_node *n;
	if (i >= 0xfe) return NULL;
	for (n = ext2fs_rb_first(root); n && i; n = ext2fs_rb_next(n), i--) ;
	return n ? node_to_extent(n) : NULL;
}
static void restore(const struct canon *c, struct model *m, mask_t val)
{
	const unsigned char *p = c->b;
	unsigned end = p[0], real = p[1];
	if (obj) ext2fs_free_generic_bmap(obj);
	obj = NULL;
	if (new_obj(backend, end, real, &obj)) abort();
	m->end = end; m->real_end = real; m->val = val;
	memcpy(&m->known, p + 2, 8);
	p += 10;
	if (backend == B_RB) {
		struct ext2fs_rb_private *bp = O64()->private;
		struct bmap_rb_extent *pre[MAXN]; int npre = 0;
		int w = p[0], r = p[1], rn = p[2];
		p += 3;
		bp->root.rb_node = rb_deser(&p, NULL, pre, &npre);
		bp->wcursor = rb_nth(&bp->root, w); bp->rcursor = rb_nth(&bp->root, r); bp->rcursor_next = rb_nth(&bp->root, rn);
	} else {
		char *arr = backend == B_BA ? x_ba_array(obj) : x_32_array(obj);
		memcpy(arr, p, (real - bstart) / 8 + 1);
	}
}

/* ---- abstraction: decode the set the private state represents (over start..real_end) */
static const char *inv_err;
static int rb_black_height(struct rb_node *n)
{
	int l, r;
	if (!n) return 1;
	if (ext2fs_rb_is_red(n)) {
		if ((n->rb_left && ext2fs_rb_is_red(n->rb_left)) || (n->rb_right && ext2fs_rb_is_red(n->rb_right)))
			inv_err = "red node with red child";
	}
	if (n->rb_left && ext2fs_rb_parent(n->rb_left) != n) inv_err = "bad parent pointer";
	if (n->rb_right && ext2fs_rb_parent(n->rb_right) != n) inv_err = "bad parent pointer";
	l = rb_black_height(n->rb_left); r = rb_black_height(n->rb_right);
	if (l != r) inv_err = "black heights differ";
	return l + (ext2fs_rb_is_black(n) ? 1 : 0);
}
static mask_t decode(void)
{
	mask_t v = 0; unsigned i, real = obj_real();
	inv_err = NULL;
	if (backend == B_RB) {
		struct ext2fs_rb_private *bp = O64()->private;
		struct rb_node *n; struct bmap_rb_extent *prev = NULL, *e;
		if (bp->root.rb_node && ext2fs_rb_is_red(bp->root.rb_node)) inv_err = "red root";
		rb_black_height(bp->root.rb_node);
		for (n = ext2fs_rb_first(&bp->root); n; n = ext2fs_rb_next(n)) {
			e = node_to_extent(n);
			if (e->count == 0) inv_err = "empty extent";
			if (e->start + e->count > (uint64_t)(real - bstart) + 1) inv_err = "extent beyond real_end";
			if (prev && prev->start + prev->count >= e->start) inv_err = "extents unsorted/overlapping/adjacent";
			for (i = 0; i < e->count && e->start + i < MAXN; i++) v |= (mask_t)1 << (e->start + i);
			prev = e;
		}
		if (rb_index(&bp->root, bp->wcursor) == 0xfe) inv_err = "dangling wcursor";
		if (rb_index(&bp->root, bp->rcursor) == 0xfe) inv_err = "dangling rcursor";
		/* rcursor_next is only ever read while rcursor is non-NULL */
		if (bp->rcursor && rb_index(&bp->root, bp->rcursor_next) == 0xfe) inv_err = "dangling rcursor_next";
	} else {
		unsigned char *arr = (unsigned char *)(backend == B_BA ? x_ba_array(obj) : x_32_array(obj));
		for (i = 0; i <= real - bstart; i++)
			if (arr[i >> 3] & (1 << (i & 7))) v |= (mask_t)1 << i;
	}
	return v;
}

/* ------------------------------------------------------------------ reference functions (tri-state aware) */
static int ref_first(mask_t v, unsigned lo, unsigned hi, int want)	/* first element in lo..hi with bit==want, or -1 */
{
	unsigned i;
	for (i = lo; i <= hi; i++)
		if ((int)((v >> (i - bstart)) & 1) == want) return (int) i;
	return -1;
}

/* result of applying one op: returns 0 ok, 1 violation (msg filled), -1 op not enabled in this state */
static char vmsg[512];
static int apply(const struct op *o, struct model *m)
{
	unsigned end = m->end, real = m->real_end;
	mask_t lo = m->val & m->known, hi = m->val | ~m->known;	/* unknown bits -> 0 / 1 */
	mask_t all = rng(bstart, real);
	uint64_t u0, u1;
	int r, e_lo, e_hi;
	vmsg[0] = 0;
	lo &= all; hi &= all;
	switch (o->k) {
	case O_MARK: case O_UNMARK: case O_TEST:
		u0 = o->a >> cbits;
		if (u0 > end) return -1;
		e_lo = (lo >> (u0 - bstart)) & 1; e_hi = (hi >> (u0 - bstart)) & 1;
		if (o->k == O_MARK) r = ext2fs_mark_generic_bmap(obj, o->a);
		else if (o->k == O_UNMARK) r = ext2fs_unmark_generic_bmap(obj, o->a);
		else r = ext2fs_test_generic_bmap(obj, o->a);
		if (e_lo == e_hi && !!r != e_lo) { snprintf(vmsg, sizeof vmsg, "returned %d, reference says bit was %d", r, e_lo); return 1; }
		if (o->k == O_MARK) { m->val |= (mask_t)1 << (u0 - bstart); m->known |= (mask_t)1 << (u0 - bstart); }
		if (o->k == O_UNMARK) { m->val &= ~((mask_t)1 << (u0 - bstart)); m->known |= (mask_t)1 << (u0 - bstart); }
		return 0;
	case O_MARKR: case O_UNMARKR: case O_TESTR:
		u0 = o->a >> cbits; u1 = (o->a + o->b - 1) >> cbits;
		if (u1 > end) return -1;
		if (o->k == O_MARKR) { ext2fs_mark_block_bitmap_range2(obj, o->a, o->b); m->val |= rng(u0, u1); m->known |= rng(u0, u1); return 0; }
		if (o->k == O_UNMARKR) { ext2fs_unmark_block_bitmap_range2(obj, o->a, o->b); m->val &= ~rng(u0, u1); m->known |= rng(u0, u1); return 0; }
		r = ext2fs_test_block_bitmap_range2(obj, o->a, o->b);
		e_lo = !(hi & rng(u0, u1)); e_hi = !(lo & rng(u0, u1));
		if (e_lo == e_hi && !!r != e_lo) { snprintf(vmsg, sizeof vmsg, "returned %d, reference says range-all-clear=%d", r, e_lo); return 1; }
		return 0;
	case O_FFZ: case O_FFS: {
		__u64 out = 0xdeadbeef; errcode_t rc; int want = o->k == O_FFS;
		int x_lo, x_hi; int64_t f_lo, f_hi;
		u0 = o->a >> cbits; u1 = o->b >> cbits;
		if (u1 > end) return -1;
		x_lo = ref_first(lo, u0, u1, want); x_hi = ref_first(hi, u0, u1, want);
		if (backend == B_32 && cbits) return -1;
		rc = ext2fs_find_first_zero_generic_bmap(obj, o->a, o->b, &out);
		if (want) { out = 0xdeadbeef; rc = ext2fs_find_first_set_generic_bmap(obj, o->a, o->b, &out); }
		if (x_lo != x_hi) return 0;		/* depends on unknown padding bits */
		f_lo = x_lo < 0 ? -1 : (int64_t)(((uint64_t)x_lo << cbits) >= o->a ? ((uint64_t)x_lo << cbits) : o->a);
		(void) f_hi;
		if (f_lo < 0) { if (rc != ENOENT) { snprintf(vmsg, sizeof vmsg, "returned rc=%ld out=%llu, reference says ENOENT", (long) rc, (unsigned long long) out); return 1; } }
		else if (rc != 0 || out != (uint64_t) f_lo) { snprintf(vmsg, sizeof vmsg, "returned rc=%ld out=%llu, reference says %lld", (long) rc, (unsigned long long) out, (long long) f_lo); return 1; }
		return 0; }
	case O_GETR: {
		unsigned char buf[16]; errcode_t rc; unsigned i;
		if (o->a + o->b - 1 > real) return -1;
		memset(buf, 0xAA, sizeof buf);
		rc = ext2fs_get_generic_bmap_range(obj, o->a, o->b, buf);
		if (rc) { snprintf(vmsg, sizeof vmsg, "returned error %ld", (long) rc); return 1; }
		for (i = 0; i < o->b; i++) {
			unsigned pos = o->a + i - bstart; int got = (buf[i >> 3] >> (i & 7)) & 1;
			if (!((m->known >> pos) & 1)) continue;
			if (got != (int)((m->val >> pos) & 1)) { snprintf(vmsg, sizeof vmsg, "bit %u of output is %d, reference says %d", i, got, !got); return 1; }
		}
		return 0; }
	case O_SETR: {
		unsigned char buf[4]; errcode_t rc; mask_t bits;
		if (o->a + o->b - 1 > real) return -1;
		buf[0] = o->c & 0xff; buf[1] = (o->c >> 8) & 0xff; buf[2] = buf[3] = 0;
		rc = ext2fs_set_generic_bmap_range(obj, o->a, o->b, buf);
		if (rc) { snprintf(vmsg, sizeof vmsg, "returned error %ld", (long) rc); return 1; }
		bits = ((mask_t) o->c) << (o->a - bstart);
		m->val = (m->val & ~rng(o->a, o->a + o->b - 1)) | bits; m->known |= rng(o->a, o->a + o->b - 1);
		return 0; }
	case O_CLEAR:
		ext2fs_clear_generic_bmap(obj); m->val = 0; m->known = all; return 0;
	case O_COPY: {
		ext2fs_generic_bitmap n = NULL; errcode_t rc = ext2fs_copy_generic_bmap(obj, &n);
		if (rc || !n) { snprintf(vmsg, sizeof vmsg, "copy failed %ld", (long) rc); return 1; }
		ext2fs_free_generic_bmap(obj); obj = n; return 0; }
	case O_PAD:
		ext2fs_set_generic_bmap_padding(obj);
		m->val |= rng(end + 1, real); m->known |= rng(end + 1, real); return 0;
	case O_FUDGE: {
		__u64 oend = 0xdead; errcode_t rc;
		if (o->a > real) return -1;
		rc = ext2fs_fudge_generic_bmap_end(obj, EXT2_ET_FUDGE_BLOCK_BITMAP_END, o->a, &oend);
		if (rc || oend != end) { snprintf(vmsg, sizeof vmsg, "fudge rc=%ld oend=%llu expected oend=%u", (long) rc, (unsigned long long) oend, end); return 1; }
		m->end = o->a; return 0; }
	case O_RESIZE: {
		errcode_t rc; unsigned ne = o->a, nr = o->b;
		unsigned keep = ne < end ? ne : end;
		rc = ext2fs_resize_generic_bmap(obj, ne, nr);
		if (rc) { snprintf(vmsg, sizeof vmsg, "resize rc=%ld", (long) rc); return 1; }
		/* elements <= min(old end,new end) keep their value; (old end, new end] become 0; beyond new end: padding, unknown */
		m->known &= rng(bstart, keep); m->val &= rng(bstart, keep);
		if (ne > end) m->known |= rng(end + 1, ne);
		m->end = ne; m->real_end = nr;
		return 0; }
	case O_CMP_EQ: case O_CMP_NE: {
		/* compare against an object of the *other* backend holding the reference set (CMP_NE: with element a flipped) */
		ext2fs_generic_bitmap other = NULL; errcode_t rc; unsigned i; mask_t want;
		int ob = backend == B_32 ? B_32 : (backend == B_BA ? B_RB : B_BA);
		if ((m->known & rng(bstart, end)) != rng(bstart, end)) return -1;
		if (o->k == O_CMP_NE && o->a > end) return -1;
		if (new_obj(ob, end, real, &other)) abort();
		want = m->val; if (o->k == O_CMP_NE) want ^= (mask_t)1 << (o->a - bstart);
		for (i = bstart; i <= end; i++)
			if ((want >> (i - bstart)) & 1) ext2fs_mark_generic_bmap(other, (uint64_t) i << cbits);
		rc = ext2fs_compare_generic_bmap(EXT2_ET_NEQ_BLOCK_BITMAP, obj, other);
		ext2fs_free_generic_bmap(other);
		if (o->k == O_CMP_EQ && rc != 0) { snprintf(vmsg, sizeof vmsg, "compare with an equal set returned %ld", (long) rc); return 1; }
		if (o->k == O_CMP_NE && rc != EXT2_ET_NEQ_BLOCK_BITMAP) { snprintf(vmsg, sizeof vmsg, "compare with a set differing in element %llu returned %ld", (unsigned long long) o->a, (long) rc); return 1; }
		return 0; }
	}
	return -1;
}

/* after-op checks common to all ops */
static int post_check(const struct model *m)
{
	mask_t v = decode(), all = rng(bstart, m->real_end);
	if (inv_err) { snprintf(vmsg, sizeof vmsg, "structure invariant broken: %s", inv_err); return 1; }
	if (obj_end() != m->end || obj_real() != m->real_end) { snprintf(vmsg, sizeof vmsg, "end/real_end %u/%u, reference %u/%u", obj_end(), obj_real(), m->end, m->real_end); return 1; }
	if (((v ^ m->val) & m->known & all) != 0) {
		snprintf(vmsg, sizeof vmsg, "stored set 0x%llx differs from reference 0x%llx (known mask 0x%llx)", (unsigned long long) v, (unsigned long long) m->val, (unsigned long long) m->known);
		return 1;
	}
	return 0;
}

/* ------------------------------------------------------------------ state table */
struct st { struct canon c; mask_t val; int parent, op, depth; };
static struct st *sts; static long nst, capst;
static int *htab; static long hcap;
static uint64_t hash(const struct canon *c)
{
	uint64_t h = 1469598103934665603ULL; int i;
	for (i = 0; i < c->n; i++) { h ^= c->b[i]; h *= 1099511628211ULL; }
	return h;
}
static long lookup_or_add(const struct canon *c, mask_t val, int parent, int op, int depth, int *isnew)
{
	uint64_t h = hash(c) & (hcap - 1);
	while (htab[h] >= 0) {
		struct st *s = &sts[htab[h]];
		if (s->c.n == c->n && !memcmp(s->c.b, c->b, c->n)) { *isnew = 0; return htab[h]; }
		h = (h + 1) & (hcap - 1);
	}
	if (nst == capst) { fprintf(stderr, "state table full\n"); exit(3); }
	sts[nst].c = *c; sts[nst].val = val; sts[nst].parent = parent; sts[nst].op = op; sts[nst].depth = depth;
	htab[h] = nst; *isnew = 1;
	return nst++;
}

static void print_hist_k(const char *key, long s, int lastop)
{
	int stack[4096], n = 0; char b[96];
	while (s > 0 && n < 4095) { stack[n++] = sts[s].op; s = sts[s].parent; }
	printf("\"%s\":[", key);
	while (n--) { opstr(&ops[stack[n]], b, sizeof b); printf("\"%s\",", b); }
	opstr(&ops[lastop], b, sizeof b); printf("\"%s\"],", b);
}
static void print_hist(long s, int lastop) { print_hist_k("history", s, lastop); }
static void print_hist_ids(long s, int lastop)
{
	int stack[4096], n = 0;
	while (s > 0 && n < 4095) { stack[n++] = sts[s].op; s = sts[s].parent; }
	printf("\"ops\":[");
	while (n--) printf("%d,", stack[n]);
	printf("%d]", lastop);
}

static void quiet_hook(const char *w, errcode_t c, const char *f, va_list a) { (void) w; (void) c; (void) f; (void) a; }

int main(int argc, char **argv)
{
	long maxstates, i, transitions = 0, viol = 0, disabled = 0;
	struct model m; struct canon c; int isnew, maxdepth = 0, capped = 0;
	long perkind_viol[O_NKINDS] = {0}, perkind_tr[O_NKINDS] = {0};
	if (argc < 7) { fprintf(stderr, "usage\n"); return 2; }
	backend = !strcmp(argv[1], "ba") ? B_BA : !strcmp(argv[1], "rb") ? B_RB : B_32;
	bstart = atoi(argv[2]); bend0 = atoi(argv[3]); breal0 = atoi(argv[4]); cbits = atoi(argv[5]) & 3; geom = atoi(argv[5]) >= 4; maxstates = atol(argv[6]);
	if (breal0 + 3 - bstart + 1 > MAXN) { fprintf(stderr, "too large\n"); return 2; }
	if (backend == B_32 && cbits) { fprintf(stderr, "legacy bitmaps have no cluster granularity\n"); return 2; }
	set_com_err_hook(quiet_hook);
	memset(&fakefs, 0, sizeof fakefs); memset(&fakesb, 0, sizeof fakesb);
	fakefs.super = &fakesb; fakefs.cluster_ratio_bits = cbits; fakefs.magic = EXT2_ET_MAGIC_EXT2FS_FILSYS;
	gen_ops();

	if (argc >= 9 && !strcmp(argv[7], "--replay")) {
		char *tok = strtok(argv[8], ","); int bad = 0; char b[96];
		if (new_obj(backend, bend0, breal0, &obj)) abort();
		m.end = bend0; m.real_end = breal0; m.val = 0; m.known = rng(bstart, breal0);
		while (tok) {
			int id = atoi(tok), r;
			if (id < 0 || id >= nops) { fprintf(stderr, "bad op id\n"); return 2; }
			opstr(&ops[id], b, sizeof b);
			r = apply(&ops[id], &m);
			if (r == 0) r = post_check(&m);
			printf("%-28s -> %s %s\n", b, r == 0 ? "ok" : r < 0 ? "not enabled" : "VIOLATION:", vmsg);
			if (r > 0) { bad = 1; break; }
			tok = strtok(NULL, ",");
		}
		return bad;
	}

	capst = maxstates + 1; sts = malloc(capst * sizeof(*sts));
	for (hcap = 1024; hcap < capst * 2; hcap <<= 1) ;
	htab = malloc(hcap * sizeof(int)); memset(htab, 0xff, hcap * sizeof(int));
	if (!sts || !htab) { fprintf(stderr, "oom\n"); return 3; }

	if (new_obj(backend, bend0, breal0, &obj)) abort();
	m.end = bend0; m.real_end = breal0; m.val = 0; m.known = rng(bstart, breal0);
	canon_of(&m, &c);
	lookup_or_add(&c, 0, -1, -1, 0, &isnew);

	for (i = 0; i < nst; i++) {
		int oi;
		for (oi = 0; oi < nops; oi++) {
			int r; struct canon c2, c3;
			restore(&sts[i].c, &m, sts[i].val);
			if (oi == 0) {		/* rebuilt object must canonicalise to the stored form */
				canon_of(&m, &c3);
				if (c3.n != sts[i].c.n || memcmp(c3.b, sts[i].c.b, c3.n)) { fprintf(stderr, "restore mismatch\n"); return 3; }
			}
			r = apply(&ops[oi], &m);
			if (r < 0) { disabled++; continue; }
			transitions++; perkind_tr[ops[oi].k]++;
			if (r == 0) r = post_check(&m);
			if (r > 0) {
				viol++;
				if (perkind_viol[ops[oi].k]++ < 25) {
					char *p; for (p = vmsg; *p; p++) if (*p == '"' || *p == '\\') *p = '\'';
					printf("{\"type\":\"violation\",\"kind\":\"%s\",\"msg\":\"%s\",", kname[ops[oi].k], vmsg);
					print_hist(i, oi); print_hist_ids(i, oi); printf("}\n");
				}
				continue;	/* do not explore beyond a wrong transition */
			}
			canon_of(&m, &c2);
			if (nst >= maxstates) { int dummy; uint64_t h = hash(&c2) & (hcap - 1); int found = 0;
				while (htab[h] >= 0) { struct st *s = &sts[htab[h]]; if (s->c.n == c2.n && !memcmp(s->c.b, c2.b, c2.n)) { found = 1; break; } h = (h + 1) & (hcap - 1); }
				(void) dummy; if (!found) capped = 1; continue; }
			lookup_or_add(&c2, m.val, i, oi, sts[i].depth + 1, &isnew);
			if (isnew && sts[i].depth + 1 > maxdepth) maxdepth = sts[i].depth + 1;
		}
	}
	printf("{\"type\":\"summary\",\"backend\":\"%s\",\"start\":%u,\"end\":%u,\"real_end\":%u,\"cluster_bits\":%d,\"geometry_ops\":%d,\"ops\":%d,\"states\":%ld,"
	       "\"transitions\":%ld,\"disabled\":%ld,\"max_depth\":%d,\"closed\":%s,\"violations\":%ld,\"per_kind\":{", argv[1], bstart, bend0, breal0, cbits, geom,
	       nops, nst, transitions, disabled, maxdepth, capped ? "false" : "true", viol);
	for (i = 0; i < O_NKINDS; i++) printf("\"%s\":[%ld,%ld]%s", kname[i], perkind_tr[i], perkind_viol[i], i + 1 < O_NKINDS ? "," : "");
	printf("},");
	if (nst > 1) { print_hist_k("deepest_history", sts[nst - 1].parent, sts[nst - 1].op); }
	printf("\"exit\":0}\n");
	return 0;
}
