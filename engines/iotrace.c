/*
 * iotrace.so -- LD_PRELOAD shim for the unmodified tool binaries.  Logs every write-class call on the file whose path
 * equals $IOTRACE_PATH to $IOTRACE_LOG as text lines:
 *     W <offset> <length> <hex of data if length <= 65536>      (pwrite64 / write at the tracked file offset; W2/S2 for $IOTRACE_PATH2)
 *     S                                                          (fsync / fdatasync)
 *     T <length>                                                 (ftruncate)
 *     F <mode> <offset> <length>                                 (fallocate)
 * Optional fault injection: $IOTRACE_FAIL_AT=n makes the n-th write-class call fail with EIO;
 * $IOTRACE_KILL_AT=n ends the process with _exit(137) (no atexit handlers, no stdio flush: like SIGKILL) instead of performing the n-th write-class call.
 * uuid_generate()/uuid_generate_time() are fixed when $IOTRACE_FIXED_UUID is set (determinism of journal resets).
 */
#define _GNU_SOURCE
#include <dlfcn.h>
#include <stdio.h>
#include <stdlib.h>
#include <string.h>
#include <unistd.h>
#include <fcntl.h>
#include <errno.h>
#include <stdarg.h>
#include <sys/types.h>
#include <sys/stat.h>

#define MAXFD 256
static char tracked[MAXFD];
static off_t pos[MAXFD];
static FILE *logf;
static const char *tpath, *tpath2;	/* second tracked file (external journal device): events carry the suffix 2 */
static long nwrites, fail_at = -1, kill_at = -1;
static int inited;

static void init(void)
{
	const char *l;
	if (inited) return;
	inited = 1;
	tpath = getenv("IOTRACE_PATH"); tpath2 = getenv("IOTRACE_PATH2");
	l = getenv("IOTRACE_LOG");
	if (l) { int fd = ((int (*)(const char *, int, ...)) dlsym(RTLD_NEXT, "open"))(l, O_WRONLY | O_CREAT | O_APPEND, 0644); if (fd >= 0) logf = fdopen(fd, "a"); }
	if (getenv("IOTRACE_FAIL_AT")) fail_at = atol(getenv("IOTRACE_FAIL_AT"));
	if (getenv("IOTRACE_KILL_AT")) kill_at = atol(getenv("IOTRACE_KILL_AT"));
}
static void note_open(int fd, const char *path)
{
	init();
	if (fd >= 0 && fd < MAXFD) { tracked[fd] = (tpath && path && !strcmp(path, tpath)) ? 1 : (tpath2 && path && !strcmp(path, tpath2)) ? 2 : 0; pos[fd] = 0; }
}
static void logw(int dev, off_t off, const void *buf, size_t n)
{
	size_t i; const unsigned char *p = buf;
	if (!logf) return;
	fprintf(logf, "W%s %lld %zu ", dev == 2 ? "2" : "", (long long) off, n);
	if (n <= 65536) for (i = 0; i < n; i++) fprintf(logf, "%02x", p[i]);
	fputc('\n', logf); fflush(logf);
}
static int inject(void) { nwrites++; if (kill_at > 0 && nwrites == kill_at) _exit(137); if (fail_at > 0 && nwrites == fail_at) { errno = EIO; return 1; } return 0; }

#define REAL(name, type) static type real; if (!real) real = (type) dlsym(RTLD_NEXT, name)
int open(const char *path, int flags, ...)
{
	typedef int (*fn)(const char *, int, ...); REAL("open", fn);
	mode_t m = 0; va_list ap; int fd;
	if (flags & (O_CREAT | O_TMPFILE)) { va_start(ap, flags); m = va_arg(ap, mode_t); va_end(ap); }
	fd = real(path, flags, m); note_open(fd, path); return fd;
}
int open64(const char *path, int flags, ...)
{
	typedef int (*fn)(const char *, int, ...); REAL("open64", fn);
	mode_t m = 0; va_list ap; int fd;
	if (flags & (O_CREAT | O_TMPFILE)) { va_start(ap, flags); m = va_arg(ap, mode_t); va_end(ap); }
	fd = real(path, flags, m); note_open(fd, path); return fd;
}
int close(int fd)
{
	typedef int (*fn)(int); REAL("close", fn);
	if (fd >= 0 && fd < MAXFD) tracked[fd] = 0;
	return real(fd);
}
ssize_t pwrite64(int fd, const void *buf, size_t n, off_t off)
{
	typedef ssize_t (*fn)(int, const void *, size_t, off_t); REAL("pwrite64", fn);
	ssize_t r;
	if (fd >= 0 && fd < MAXFD && tracked[fd]) { if (inject()) return -1; r = real(fd, buf, n, off); if (r > 0) logw(tracked[fd], off, buf, r); return r; }
	return real(fd, buf, n, off);
}
ssize_t pwrite(int fd, const void *buf, size_t n, off_t off) { return pwrite64(fd, buf, n, off); }
ssize_t write(int fd, const void *buf, size_t n)
{
	typedef ssize_t (*fn)(int, const void *, size_t); REAL("write", fn);
	ssize_t r;
	if (fd >= 0 && fd < MAXFD && tracked[fd]) { if (inject()) return -1; r = real(fd, buf, n); if (r > 0) { logw(tracked[fd], pos[fd], buf, r); pos[fd] += r; } return r; }
	return real(fd, buf, n);
}
ssize_t read(int fd, void *buf, size_t n)
{
	typedef ssize_t (*fn)(int, void *, size_t); REAL("read", fn);
	ssize_t r = real(fd, buf, n);
	if (fd >= 0 && fd < MAXFD && tracked[fd] && r > 0) pos[fd] += r;
	return r;
}
off_t lseek(int fd, off_t off, int whence)
{
	typedef off_t (*fn)(int, off_t, int); REAL("lseek", fn);
	off_t r = real(fd, off, whence);
	if (fd >= 0 && fd < MAXFD && tracked[fd] && r >= 0) pos[fd] = r;
	return r;
}
off_t lseek64(int fd, off_t off, int whence)
{
	typedef off_t (*fn)(int, off_t, int); REAL("lseek64", fn);
	off_t r = real(fd, off, whence);
	if (fd >= 0 && fd < MAXFD && tracked[fd] && r >= 0) pos[fd] = r;
	return r;
}
int fsync(int fd)
{
	typedef int (*fn)(int); REAL("fsync", fn);
	if (fd >= 0 && fd < MAXFD && tracked[fd] && logf) { fprintf(logf, "S%s\n", tracked[fd] == 2 ? "2" : ""); fflush(logf); }
	return real(fd);
}
int fdatasync(int fd)
{
	typedef int (*fn)(int); REAL("fdatasync", fn);
	if (fd >= 0 && fd < MAXFD && tracked[fd] && logf) { fprintf(logf, "S%s\n", tracked[fd] == 2 ? "2" : ""); fflush(logf); }
	return real(fd);
}
int ftruncate(int fd, off_t len)
{
	typedef int (*fn)(int, off_t); REAL("ftruncate", fn);
	if (fd >= 0 && fd < MAXFD && tracked[fd] && logf) { fprintf(logf, "T %lld\n", (long long) len); fflush(logf); }
	return real(fd, len);
}
int ftruncate64(int fd, off_t len) { return ftruncate(fd, len); }
int fallocate(int fd, int mode, off_t off, off_t len)
{
	typedef int (*fn)(int, int, off_t, off_t); REAL("fallocate", fn);
	if (fd >= 0 && fd < MAXFD && tracked[fd] && logf) { fprintf(logf, "F %d %lld %lld\n", mode, (long long) off, (long long) len); fflush(logf); }
	return real(fd, mode, off, len);
}
int fallocate64(int fd, int mode, off_t off, off_t len) { return fallocate(fd, mode, off, len); }
void uuid_generate(unsigned char *out)
{
	typedef void (*fn)(unsigned char *); REAL("uuid_generate", fn);
	if (getenv("IOTRACE_FIXED_UUID")) { memset(out, 0x5a, 16); out[6] = 0x4a; out[8] = 0x9a; return; }
	if (real) real(out); else memset(out, 0x5a, 16);
}
