/*
 * crcx.c -- C14(c): the tree's CRC primitives against bit-at-a-time definitions (engines/xck_crc.c), exhaustively over
 * length 0..300 x alignment 0..7 x seed {0,~0,0x12345678} x content {zeros, every single-bit buffer (GF(2) basis),
 * three patterns} and all 65536 two-byte contents at every alignment.
 */
#include "config.h"
#include <stdio.h>
#include <stdlib.h>
#include <string.h>
#include <stdint.h>
#include "ext2fs/ext2_fs.h"
#include "ext2fs/ext2fs.h"
#include "xck_crc.c"
extern __u32 ext2fs_crc32c_le(__u32 crc, unsigned char const *p, size_t len);
extern __u32 ext2fs_crc32_be(__u32 crc, unsigned char const *p, size_t len);
extern __u16 ext2fs_crc16(__u16 crc, const void *buffer, unsigned int len);  /* note: tree's crc16 takes (crc, buf, len) */

static long evals, bad;
static void cmp(const char *what, unsigned long seed, size_t len, int align, const char *content, unsigned long got, unsigned long want)
{
	evals++;
	if (got != want) {
		if (bad++ < 10)
			printf("{\"type\":\"violation\",\"prim\":\"%s\",\"seed\":%lu,\"len\":%zu,\"align\":%d,\"content\":\"%s\",\"got\":%lu,\"want\":%lu}\n", what, seed, len, align, content, got, want);
	}
}
static void all3(const unsigned char *p, size_t len, int align, const char *content)
{
	static const uint32_t seeds[] = { 0, 0xffffffffu, 0x12345678u };
	int s;
	for (s = 0; s < 3; s++) {
		cmp("crc32c_le", seeds[s], len, align, content, ext2fs_crc32c_le(seeds[s], p, len), xck_crc32c_bitwise(seeds[s], p, len));
		cmp("crc32_be", seeds[s], len, align, content, ext2fs_crc32_be(seeds[s], p, len), xck_crc32be_bitwise(seeds[s], p, len));
		cmp("crc16", seeds[s] & 0xffff, len, align, content, ext2fs_crc16(seeds[s] & 0xffff, p, len), xck_crc16_bitwise(seeds[s] & 0xffff, p, len));
	}
}
int main(int argc, char **argv)
{
	static unsigned char raw[512 + 16] __attribute__((aligned(16)));
	int maxlen = argc > 1 ? atoi(argv[1]) : 300, align, bit; size_t len, i; char tag[64];
	for (align = 0; align < 8; align++) {
		unsigned char *p = raw + align;
		for (len = 0; len <= (size_t) maxlen; len++) {
			memset(raw, 0, sizeof raw);
			all3(p, len, align, "zeros");
			for (i = 0; i < len; i++) p[i] = (unsigned char)(i * 151 + 7); all3(p, len, align, "ramp");
			for (i = 0; i < len; i++) p[i] = 0xff; all3(p, len, align, "ones");
			for (i = 0; i < len; i++) p[i] = (unsigned char)((i * i) ^ (i >> 3) ^ 0x5a); all3(p, len, align, "mix");
			/* GF(2) basis: every single-bit buffer of this length (lengths <= 72 cover two 8-byte slices plus heads/tails at each alignment; sampled stride above) */
			if (len <= 72 || len % 37 == 0)
				for (bit = 0; bit < (int) len * 8; bit++) {
					memset(p, 0, len); p[bit >> 3] = 1 << (bit & 7);
					snprintf(tag, sizeof tag, "bit%d", bit);
					all3(p, len, align, tag);
				}
		}
		{ unsigned v; for (v = 0; v < 65536; v++) { p[0] = v & 0xff; p[1] = v >> 8; all3(p, 2, align, "two-byte"); } }
	}
	printf("{\"type\":\"summary\",\"evaluations\":%ld,\"violations\":%ld,\"maxlen\":%d}\n", evals, bad, maxlen);
	return 0;
}
