/* accessor TU: includes the tree's blkmap64_ba.c to reach its private struct */
#include "config.h"
#include "blkmap64_ba.c"
char *x_ba_array(ext2fs_generic_bitmap b) { return ((ext2fs_ba_private) ((ext2fs_generic_bitmap_64) b)->private)->bitarray; }
