/*
 * xattrx.c -- C15: extended attributes read back exactly as set.
 *
 * Same protocol as fileopx.c: histories on stdin, one JSON line per history on stdout.  Operations on inode X (P = regular file,
 * D = directory, I = file that also holds inline data when the filesystem has inline_data):
 *   s:X:<name index>:<value length>     open handle, read, set, close
 *   m:X:<n1>:<l1>:<n2>:<l2>             two sets through one handle
 *   d:X:<name index>                    remove
 *   r                                   close and reopen the filesystem
 * After every operation the attributes of all three inodes are read back through fresh handles (ext2fs_xattrs_iterate and
 * ext2fs_xattr_get per name) and compared with the model map.
 */
#define _GNU_SOURCE
#include "config.h"
#include <stdio.h>
#include <stdlib.h>
#include <string.h>
#include <stdarg.h>
#include <unistd.h>
#include <fcntl.h>
#include <stdint.h>
#include "ext2fs/ext2_fs.h"
#include "ext2fs/ext2fs.h"

#define NNAMES 7
#define MAXV 70000
static char longname[260];
static const char *names[NNAMES];
struct ent { int present; unsigned len; unsigned char *v; };
static struct ent M[3][NNAMES];
static ext2_filsys fs;
static ext2_ino_t ino[3];
static const char *inames[3] = { "P", "D", "I" };
static char *scratch; static unsigned char *base; static size_t baselen;
static char bad[600], errs[512]; static unsigned stampk; static int fatal_asan; static int degraded[3];
void __asan_on_error(void) { fatal_asan = 1; }
static void setbad(const char *fmt, ...) { va_list ap; if (bad[0]) return; va_start(ap, fmt); vsnprintf(bad, sizeof bad, fmt, ap); va_end(ap); }
static void adderr(const char *op, errcode_t e) { size_t n = strlen(errs); snprintf(errs + n, sizeof errs - n, "%s%s=%ld", n ? " " : "", op, (long) e); }

static int open_fs(void)
{
	int i; errcode_t e = ext2fs_open(scratch, EXT2_FLAG_RW | EXT2_FLAG_64BITS, 0, 0, unix_io_manager, &fs);
	if (e) { setbad("ext2fs_open failed: %ld", (long) e); return 1; }
	if ((e = ext2fs_read_bitmaps(fs))) { setbad("read_bitmaps failed: %ld", (long) e); return 1; }
	for (i = 0; i < 3; i++) if (ext2fs_namei(fs, EXT2_ROOT_INO, EXT2_ROOT_INO, inames[i], &ino[i])) { setbad("inode %s not found", inames[i]); return 1; }
	return 0;
}
static int close_fs(void) { errcode_t e; if (!fs) return 0; e = ext2fs_close_free(&fs); if (e) { setbad("ext2fs_close failed: %ld", (long) e); return 1; } return 0; }

struct itctx { int x; int seen[NNAMES]; };
static int iter_cb(char *name, char *value, size_t len, void *data)
{
	struct itctx *c = data; int k;
	for (k = 0; k < NNAMES; k++) if (!strcmp(name, names[k])) break;
	if (k == NNAMES) {
		if (!strcmp(name, "system.data")) return 0;		/* inline data lives in the same namespace */
		setbad("inode %s lists an attribute nobody set: %.60s", inames[c->x], name); return 0;
	}
	if (c->seen[k]++) { setbad("inode %s lists %.40s twice", inames[c->x], name); return 0; }
	if (!M[c->x][k].present) { setbad("inode %s still lists removed/never-set attribute %.40s", inames[c->x], name); return 0; }
	if (k == 4) return 0;	/* iterate hands out the on-disk ACL format; the converted value is compared through ext2fs_xattr_get */
	if (len != M[c->x][k].len || (len && memcmp(value, M[c->x][k].v, len)))
		setbad("inode %s attribute %.40s reads back %zu bytes%s, %u were set", inames[c->x], name, len, len == M[c->x][k].len ? " with different content" : "", M[c->x][k].len);
	return 0;
}
static void verify(const char *after)
{
	int x, k;
	for (x = 0; x < 3 && !bad[0]; x++) {
		struct ext2_xattr_handle *h; struct itctx c; errcode_t e;
		if (degraded[x]) continue;
		memset(&c, 0, sizeof c); c.x = x;
		if ((e = ext2fs_xattrs_open(fs, ino[x], &h))) { setbad("after %s: xattrs_open(%s) failed: %ld", after, inames[x], (long) e); return; }
		if ((e = ext2fs_xattrs_read(h))) { setbad("after %s: xattrs_read(%s) failed: %ld", after, inames[x], (long) e); ext2fs_xattrs_close(&h); return; }
		ext2fs_xattrs_iterate(h, iter_cb, &c);
		for (k = 0; k < NNAMES && !bad[0]; k++) {
			void *v = NULL; size_t len = 0;
			e = ext2fs_xattr_get(h, names[k], &v, &len);
			if (M[x][k].present) {
				if (e) setbad("after %s: get %.40s on %s failed: %ld", after, names[k], inames[x], (long) e);
				else if (len != M[x][k].len || (len && memcmp(v, M[x][k].v, len))) setbad("after %s: get %.40s on %s returns %zu bytes, %u were set (or content differs)", after, names[k], inames[x], len, M[x][k].len);
				if (!c.seen[k] && !bad[0]) setbad("after %s: %.40s on %s is not listed although it is set", after, names[k], inames[x]);
			} else if (!e) setbad("after %s: get of removed/never-set %.40s on %s succeeds", after, names[k], inames[x]);
			if (v) ext2fs_free_mem(&v);
		}
		ext2fs_xattrs_close(&h);
	}
	if (bad[0] && !strstr(bad, "after ")) { char t[600]; snprintf(t, sizeof t, "after %s: %s", after, bad); strcpy(bad, t); }
}
static unsigned char *mkval(int k, unsigned len)
{
	unsigned char *v = malloc(len + 8); unsigned i;
	stampk++;
	if (k == 4) {	/* system.posix_acl_access: a valid version-2 ACL (user_obj, group_obj, other); the permission bits vary */
		static const unsigned char acl[28] = { 2,0,0,0, 1,0,6,0,0,0,0,0, 4,0,4,0,0,0,0,0, 0x20,0,4,0,0,0,0,0 };	/* ids of *_OBJ entries are undefined; the library reads them back as 0 */
		memcpy(v, acl, 28); v[6] = 1 + (stampk % 7);
		return v;
	}
	for (i = 0; i < len; i++) v[i] = (unsigned char)(((stampk * 31 + i * 5) & 0xff) | 1);
	return v;
}
static void do_set(struct ext2_xattr_handle *h, int x, int k, unsigned len, const char *op)
{
	unsigned char *v; errcode_t e;
	if (k == 4) len = 28;
	v = mkval(k, len);
	e = ext2fs_xattr_set(h, names[k], v, len);
	if (e) { adderr(op, e); free(v); return; }
	free(M[x][k].v); M[x][k].v = v; M[x][k].len = len; M[x][k].present = 1;
}
static void apply(char *op)
{
	char *t[8], name[80], *s, *sv; int n = 0, x, k; struct ext2_xattr_handle *h; errcode_t e;
	snprintf(name, sizeof name, "%s", op);
	for (s = strtok_r(op, ":", &sv); s && n < 8; s = strtok_r(NULL, ":", &sv)) t[n++] = s;
	if (!n) return;
	if (t[0][0] == 'r') { if (close_fs() || open_fs()) return; verify(name); return; }
	x = t[1][0] == 'P' ? 0 : t[1][0] == 'D' ? 1 : 2;
	if (t[0][0] == 'h' && n == 2) {
		/* share: inode x (which has no attributes yet) is given inode P's external attribute block, as the kernel does for inodes with identical
		 * attributes (h_refcount goes up by one).  Only meaningful on 128-byte inodes, where every attribute lives in the block.  From here on a change
		 * through one inode must not show through the other. */
		struct ext2_inode_large ip, ix; __u32 newc = 0; blk64_t acl; int kk;
		if (x == 0) return;
		for (kk = 0; kk < NNAMES; kk++) if (M[x][kk].present) return;
		if (ext2fs_read_inode_full(fs, ino[0], (struct ext2_inode *) &ip, sizeof ip) || ext2fs_read_inode_full(fs, ino[x], (struct ext2_inode *) &ix, sizeof ix)) { setbad("%s: read_inode failed", name); return; }
		acl = ext2fs_file_acl_block(fs, (struct ext2_inode *) &ip);
		if (!acl || ext2fs_file_acl_block(fs, (struct ext2_inode *) &ix) || EXT2_INODE_SIZE(fs->super) != 128) return;
		if ((e = ext2fs_adjust_ea_refcount3(fs, acl, NULL, 1, &newc, ino[x]))) { setbad("%s: adjust_ea_refcount failed: %ld", name, (long) e); return; }
		ext2fs_file_acl_block_set(fs, (struct ext2_inode *) &ix, acl);
		if ((e = ext2fs_iblk_add_blocks(fs, (struct ext2_inode *) &ix, 1)) || (e = ext2fs_write_inode_full(fs, ino[x], (struct ext2_inode *) &ix, sizeof ix))) { setbad("%s: write_inode failed: %ld", name, (long) e); return; }
		for (kk = 0; kk < NNAMES; kk++) {
			M[x][kk].present = M[0][kk].present; M[x][kk].len = M[0][kk].len; free(M[x][kk].v); M[x][kk].v = NULL;
			if (M[0][kk].present) { M[x][kk].v = malloc(M[0][kk].len + 1); memcpy(M[x][kk].v, M[0][kk].v, M[0][kk].len); }
		}
		verify(name);
		return;
	}
	if ((e = ext2fs_xattrs_open(fs, ino[x], &h))) { setbad("%s: xattrs_open failed: %ld", name, (long) e); return; }
	if ((e = ext2fs_xattrs_read(h))) { setbad("%s: xattrs_read failed: %ld", name, (long) e); ext2fs_xattrs_close(&h); return; }
	if (t[0][0] == 's' && n == 4) do_set(h, x, atoi(t[2]), atoi(t[3]), name);
	else if (t[0][0] == 'm' && n == 6) { do_set(h, x, atoi(t[2]), atoi(t[3]), name); do_set(h, x, atoi(t[4]), atoi(t[5]), name); }
	else if (t[0][0] == 'd' && n == 3) {
		k = atoi(t[2]);
		e = ext2fs_xattr_remove(h, names[k]);
		if (e) adderr(name, e);
		else { M[x][k].present = 0; }
	} else setbad("unknown operation %s", name);
	e = ext2fs_xattrs_close(&h);
	if (e) { adderr(name, e); degraded[x] = 1; /* the write-out failed (no space): what is on disk for this inode is unspecified from here on */ }
	verify(name);
}
static uint64_t fnv(const unsigned char *p, size_t n) { uint64_t h = 1469598103934665603ULL; size_t i; for (i = 0; i < n; i++) { h ^= p[i]; h *= 1099511628211ULL; } return h; }

int main(int argc, char **argv)
{
	char line[4096]; FILE *bf; int i, k;
	if (argc < 3) { fprintf(stderr, "usage: xattrx <base image> <scratch file>\n"); return 2; }
	scratch = argv[2];
	memset(longname, 'n', 250); memcpy(longname, "user.", 5); longname[250] = 0;
	names[0] = "user.a"; names[1] = longname; names[2] = "trusted.t"; names[3] = "security.s"; names[4] = "system.posix_acl_access"; names[5] = "user.b"; names[6] = "user.cc";
	bf = fopen(argv[1], "rb"); if (!bf) { perror(argv[1]); return 2; }
	fseek(bf, 0, SEEK_END); baselen = ftell(bf); rewind(bf); base = malloc(baselen); if (fread(base, 1, baselen, bf) != baselen) return 2; fclose(bf);
	add_error_table(&et_ext2_error_table);
	while (fgets(line, sizeof line, stdin)) {
		char hist[4096], *s, *sv; int fd; unsigned char *img; uint64_t h;
		line[strcspn(line, "\n")] = 0; snprintf(hist, sizeof hist, "%s", line);
		fd = open(scratch, O_WRONLY | O_CREAT | O_TRUNC, 0644);
		if (fd < 0 || write(fd, base, baselen) != (ssize_t) baselen) { perror("scratch"); return 2; }
		close(fd);
		for (i = 0; i < 3; i++) for (k = 0; k < NNAMES; k++) { free(M[i][k].v); memset(&M[i][k], 0, sizeof M[i][k]); }
		bad[0] = errs[0] = 0; stampk = 0; fatal_asan = 0; degraded[0] = degraded[1] = degraded[2] = 0;
		if (!open_fs()) for (s = strtok_r(line, " ", &sv); s && !bad[0]; s = strtok_r(NULL, " ", &sv)) apply(s);
		if (fs) { if (bad[0]) ext2fs_close_free(&fs); else close_fs(); }
		if (fatal_asan) setbad("AddressSanitizer report during this history");
		img = malloc(baselen); fd = open(scratch, O_RDONLY); if (read(fd, img, baselen) != (ssize_t) baselen) memset(img, 0, baselen); close(fd);
		h = fnv(img, baselen); free(img);
		for (s = bad; *s; s++) if (*s == '"' || *s == '\\' || *s == '\n') *s = '\'';
		printf("{\"h\":\"%s\",\"hash\":\"%016llx\",\"bad\":\"%s\",\"errs\":\"%s\",\"degraded\":%d}\n", hist, (unsigned long long) h, bad, errs, degraded[0] | degraded[1] | degraded[2]);
		fflush(stdout);
	}
	return 0;
}
