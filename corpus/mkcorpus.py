#!/usr/bin/env python3
"""Builds the committed base images (corpus/*.img.xz) with the tools of /verif/build/plain.  Run by hand when the
corpus needs to change; the checks only ever read the committed bytes."""
import os, sys, subprocess, shutil, lzma, stat
sys.path.insert(0, os.path.join(os.path.dirname(os.path.abspath(__file__)), '..', 'tools'))
from vlib.common import *

UUID = '6b33f586-a183-4383-921d-30ab132db9b9'
SEED = 'a0c4b9f1-7e1d-4c6b-8f4e-9d2f1b3c5a70'

def mktree(root, bs, rich):
    """populate a host directory; returns list of extra debugfs commands"""
    os.makedirs(root)
    w = lambda p, b: open(os.path.join(root, p), 'wb').write(b)
    pat = lambda n, s=1: bytes(((i * 7 + s) & 0xff) for i in range(n))
    w('empty', b''); w('one', b'x'); w('bsm1', pat(bs - 1, 2)); w('bs', pat(bs, 3)); w('f12', pat(12 * bs + 1, 4))
    # sparse: a block at 0, a hole, a block at lblk 268 (double-indirect territory), size 268*bs+1
    with open(os.path.join(root, 'sparse'), 'wb') as f:
        f.write(pat(bs, 5)); f.seek(268 * bs); f.write(b'Z')
    # many extents: every other block written -> 6 extents -> extent tree of depth 1
    with open(os.path.join(root, 'frag'), 'wb') as f:
        for i in range(6):
            f.seek(2 * i * bs); f.write(pat(bs, 10 + i))
    os.symlink('one', os.path.join(root, 'lnk_short'))
    os.symlink('x' * 70, os.path.join(root, 'lnk_long'))
    os.link(os.path.join(root, 'one'), os.path.join(root, 'hard'))
    os.mknod(os.path.join(root, 'chr'), 0o600 | stat.S_IFCHR, os.makedev(1, 3))
    os.mknod(os.path.join(root, 'blk'), 0o660 | stat.S_IFBLK, os.makedev(7, 1))
    os.mkfifo(os.path.join(root, 'fifo'), 0o644)
    os.makedirs(os.path.join(root, 'd1/d2/d3'))
    w('d1/d2/d3/deep', b'deep\n'); w('d1/a', pat(100, 9))
    os.makedirs(os.path.join(root, 'lin'))
    for i in range(12): w('lin/n%02d' % i, b'')
    os.makedirs(os.path.join(root, 'hx'))
    for i in range(70): w('hx/%s_%03d' % ('k' * 36, i), b'')         # > 2 blocks at 1k -> 1-level htree after e2fsck -D
    if rich:
        os.makedirs(os.path.join(root, 'hx2'))
        for i in range(420): w('hx2/%s_%04d' % ('L' * 245, i), b'')  # 3 names per 1k block -> 140 leaves -> 2-level htree
    os.chmod(os.path.join(root, 'bs'), 0o4755); os.chown(os.path.join(root, 'bsm1'), 1000, 70000)
    for p in ('empty', 'one', 'bs', 'f12', 'sparse', 'frag', 'd1', 'lin', 'hx'):
        os.utime(os.path.join(root, p), (1600000000, 1600000001))
    cmds = ['ea_set /one user.a v1', 'ea_set /bs user.big %s' % ('B' * 300), 'ea_set /bs trusted.t tt', 'ea_set /d1 user.dir dv',
            'ea_set /f12 user.big %s' % ('B' * 300), 'ea_set /f12 trusted.t tt']
    return cmds

def build(name, mkfs_opts, blocks, bs=1024, rich=False, post=(), extra_dbg=(), journal_dev=None):
    sc = scratch()
    img = os.path.join(sc, name + '.img')
    root = os.path.join(sc, name + '.root')
    cmds = mktree(root, bs, rich)
    env = tool_env()
    argv = [tool('mke2fs'), '-q', '-F', '-b', str(bs), '-U', UUID, '-E', 'hash_seed=' + SEED + ',lazy_itable_init=0', '-d', root] + mkfs_opts + [img, str(blocks)]
    rc, out = run(argv, env=env, timeout=120)
    if rc != 0: raise SystemExit('mke2fs %s failed: %s' % (name, out))
    script = os.path.join(sc, name + '.dbg')
    open(script, 'w').write('\n'.join(list(cmds) + list(extra_dbg)) + '\n')
    rc, out = run([tool('debugfs'), '-w', '-f', script, img], env=env)
    if rc != 0: raise SystemExit('debugfs %s failed: %s' % (name, out))
    for p in post:
        rc, out = run([tool(p[0])] + list(p[1:]) + [img], env=env)
        if rc not in (0, 1): raise SystemExit('%s on %s failed rc=%s: %s' % (p[0], name, rc, out))
    rc, out = run([tool('e2fsck'), '-fn', img], env=env)
    if rc != 0: raise SystemExit('corpus image %s not clean:\n%s' % (name, out))
    data = open(img, 'rb').read()
    dst = os.path.join(VERIF, 'corpus', name + '.img.xz')
    open(dst, 'wb').write(lzma.compress(data, preset=6))
    shutil.rmtree(root)
    print('%-10s %7d bytes -> %6d xz   %s' % (name, len(data), os.path.getsize(dst), ' '.join(mkfs_opts)))

D = ['e2fsck', '-fyD']
def main():
    G = ['-g', '256']
    build('ext2', ['-t', 'ext2', '-O', '^dir_index,^resize_inode', '-I', '128', '-N', '256'] + G, 1536)
    build('ext2dx', ['-t', 'ext2', '-O', '^resize_inode', '-I', '128', '-N', '256'] + G, 1536, post=[D])
    build('ext3', ['-t', 'ext3', '-I', '256', '-N', '256', '-J', 'size=1'] + G, 3072, post=[D])
    build('ext4', ['-t', 'ext4', '-O', '^has_journal,^metadata_csum,^64bit,uninit_bg,^resize_inode', '-I', '256', '-N', '1024', '-G', '2'] + G, 2048, rich=True, post=[D])
    build('ext4csum', ['-t', 'ext4', '-O', 'metadata_csum,64bit,orphan_file,^resize_inode', '-J', 'size=1', '-I', '256', '-N', '1024', '-G', '4'] + G, 3072, rich=True, post=[D])
    build('bigalloc', ['-t', 'ext4', '-O', '^has_journal,bigalloc,metadata_csum,^resize_inode', '-C', '4096', '-I', '256', '-N', '256'], 4096, post=[D])
    build('inline', ['-t', 'ext4', '-O', '^has_journal,inline_data,metadata_csum,^resize_inode', '-I', '256', '-N', '256'] + G, 1536, post=[D])
    build('eainode', ['-t', 'ext4', '-O', '^has_journal,ea_inode,metadata_csum,^resize_inode', '-I', '256', '-N', '256'] + G, 1536, post=[D],
          extra_dbg=['ea_set /one user.huge %s' % ('H' * 1500)])
    build('quota', ['-t', 'ext4', '-O', '^has_journal,quota,project,metadata_csum,^resize_inode', '-E', 'quotatype=usrquota:grpquota:prjquota', '-I', '256', '-N', '256'] + G, 1536, post=[D])
    build('metabg', ['-t', 'ext4', '-O', '^has_journal,meta_bg,^resize_inode,metadata_csum,64bit', '-I', '256', '-N', '256', '-g', '512'], 2048, bs=2048, post=[D])
    build('bs4k', ['-t', 'ext4', '-O', '^has_journal,metadata_csum,^resize_inode', '-I', '256', '-N', '256'], 512, bs=4096, post=[D])
    build('ss2', ['-t', 'ext4', '-O', '^has_journal,sparse_super2,^resize_inode,uninit_bg,^metadata_csum', '-I', '256', '-N', '256'] + G, 1536, post=[D])
    build('resizeino', ['-t', 'ext4', '-O', '^has_journal,resize_inode,^metadata_csum,uninit_bg', '-I', '256', '-N', '256', '-E', 'resize=8192'] + G, 1536, post=[D])
    build('mmp', ['-t', 'ext4', '-O', '^has_journal,mmp,metadata_csum,^resize_inode', '-I', '256', '-N', '256'] + G, 1536, post=[D])
if __name__ == '__main__' and len(sys.argv) == 1:
    main()

def build_extj():
    """external-journal pair (needs a loop device once, at corpus build time only): corpus/extj.img.xz + corpus/extjdev.img.xz"""
    sc = scratch(); env = tool_env()
    jdev = os.path.join(sc, 'extjdev.img'); img = os.path.join(sc, 'extj.img'); root = os.path.join(sc, 'extj.root')
    os.makedirs(root)
    open(os.path.join(root, 'f12'), 'wb').write(bytes(((i * 7 + 4) & 0xff) for i in range(12 * 1024 + 1)))
    open(os.path.join(root, 'one'), 'wb').write(b'x')
    rc, out = run([tool('mke2fs'), '-q', '-F', '-O', 'journal_dev', '-b', '1024', '-U', '11111111-2222-3333-4444-555555555555', jdev, '1024'], env=env)
    assert rc == 0, out
    loop = subprocess.check_output(['losetup', '-f', '--show', jdev]).decode().strip()
    try:
        rc, out = run([tool('mke2fs'), '-q', '-F', '-t', 'ext4', '-O', '^metadata_csum,^64bit,^resize_inode', '-b', '1024', '-g', '256', '-N', '64', '-U', UUID,
                       '-E', 'hash_seed=' + SEED, '-d', root, '-J', 'device=' + loop, img, '1024'], env=env)
        assert rc == 0, out
    finally:
        subprocess.call(['losetup', '-d', loop])
    rc, out = run([tool('e2fsck'), '-fn', '-j', jdev, img], env=env)
    assert rc == 0, out
    for n, p in (('extj', img), ('extjdev', jdev)):
        open(os.path.join(VERIF, 'corpus', n + '.img.xz'), 'wb').write(lzma.compress(open(p, 'rb').read(), preset=6))
    print('extj pair built')
if __name__ == '__main__' and len(sys.argv) > 1 and sys.argv[1] == 'extj':
    build_extj()

def build_eashare():
    """corpus/eashare.img.xz: 128-byte inodes, one xattr block shared by three inodes (h_refcount 3) and one by two; made by pointing i_file_acl of
    files with identical attributes at one block and letting e2fsck -fy settle reference counts and free the orphaned blocks"""
    sc = scratch(); env = tool_env()
    img = os.path.join(sc, 'eashare.img'); root = os.path.join(sc, 'eashare.root')
    os.makedirs(root + '/d')
    for n in ('a', 'b', 'c', 'p', 'q', 'solo'):
        open(os.path.join(root, n), 'wb').write((n * 700).encode())
    open(root + '/d/x', 'wb').write(b'x' * 5000)
    os.symlink('a', root + '/l')
    rc, out = run([tool('mke2fs'), '-q', '-F', '-t', 'ext4', '-O', '^has_journal,metadata_csum,^resize_inode', '-b', '1024', '-g', '256', '-N', '64', '-I', '128', '-U', UUID,
                   '-E', 'hash_seed=' + SEED, '-d', root, img, '1024'], env=env)
    assert rc == 0, out
    big = 'S' * 300
    cmds = ['ea_set /%s user.shared %s' % (n, big) for n in ('a', 'b', 'c')] + ['ea_set /%s user.two %s' % (n, 'T' * 200) for n in ('p', 'q')] + ['ea_set /solo user.solo %s' % ('U' * 100)]
    script = os.path.join(sc, 'eashare.dbg'); open(script, 'w').write('\n'.join(cmds) + '\n')
    rc, out = run([tool('debugfs'), '-w', '-f', script, img], env=env); assert rc == 0, out
    rc, out = run([tool('debugfs'), '-R', 'stat /a', img], env=env)
    import re
    acl_a = re.search(r'File ACL: (\d+)', out).group(1)
    rc, out = run([tool('debugfs'), '-R', 'stat /p', img], env=env)
    acl_p = re.search(r'File ACL: (\d+)', out).group(1)
    open(script, 'w').write('sif /b file_acl %s\nsif /c file_acl %s\nsif /q file_acl %s\n' % (acl_a, acl_a, acl_p))
    rc, out = run([tool('debugfs'), '-w', '-f', script, img], env=env); assert rc == 0, out
    rc, out = run([tool('e2fsck'), '-fy', img], env=env); assert rc in (0, 1), out
    rc, out = run([tool('e2fsck'), '-fn', img], env=env); assert rc == 0, out
    data = open(img, 'rb').read()
    from xck.image import Image
    from xck.check import check as xcheck
    v = xcheck(data); assert not v, v
    im = Image(data)
    print('refcounts:', [(b, int.from_bytes(data[b * 1024 + 4:b * 1024 + 8], 'little')) for b in (int(acl_a), int(acl_p))])
    open(os.path.join(VERIF, 'corpus', 'eashare.img.xz'), 'wb').write(lzma.compress(data, preset=6))
    print('eashare built')
if __name__ == '__main__' and len(sys.argv) > 1 and sys.argv[1] == 'eashare':
    build_eashare()

if __name__ == '__main__' and len(sys.argv) > 1 and sys.argv[1] == 'bigquota':
    # bigalloc + quota together (cluster-granular quota accounting)
    build('bigquota', ['-t', 'ext4', '-O', '^has_journal,bigalloc,quota,metadata_csum,^resize_inode', '-C', '4096', '-I', '256', '-N', '256'], 4096, post=[D])

def build_iexpand():
    """corpus/iexpand.img.xz: 128-byte inodes, no flex_bg, two groups; the blocks right behind each inode table (the ones `tune2fs -I 256` has to vacate)
    hold data blocks, xattr blocks, directory blocks, a slow symlink and an indirect block of inodes that carry xattrs, in both groups"""
    sc = scratch(); env = tool_env()
    img = os.path.join(sc, 'iexpand.img')
    rc, out = run([tool('mke2fs'), '-q', '-F', '-t', 'ext2', '-O', '^resize_inode,^dir_index', '-b', '1024', '-g', '2048', '-N', '512', '-I', '128', '-U', UUID,
                   '-E', 'hash_seed=' + SEED, img, '4096'], env=env)
    assert rc == 0, out
    pat = lambda n, s: bytes(((i * 11 + s) & 0xff) | 1 for i in range(n))
    files = {'a1': pat(1024, 1), 'a2': pat(2500, 2), 'ind': pat(14 * 1024 + 5, 3), 'b1': pat(700, 4), 'b2': pat(3 * 1024, 5), 'plain': pat(2048, 6)}
    for n, d in files.items(): open(os.path.join(sc, 'ix.' + n), 'wb').write(d)
    W = lambda n, dst: 'write %s %s' % (os.path.join(sc, 'ix.' + n), dst)
    cmds = [W('a1', '/a1'), 'ea_set /a1 user.x %s' % ('X' * 200), W('a2', '/a2'), 'ea_set /a2 user.y %s' % ('Y' * 50), 'ea_set /a2 trusted.t tt',
            'mknod /dev c 1 3', 'ea_set /dev user.d dd', 'symlink /slow %s' % ('s' * 100), 'ea_set /slow user.s ss', 'symlink /fast short', 'ea_set /fast user.f ff',
            W('plain', '/plain'), 'mkdir /g1', W('b1', '/g1/b1'), 'ea_set /g1/b1 user.x %s' % ('X' * 200), W('b2', '/g1/b2'), 'ea_set /g1/b2 user.z zz',
            'mknod /g1/pipe p', 'ea_set /g1/pipe user.p pp', 'symlink /g1/slow %s' % ('t' * 90), 'ea_set /g1/slow user.s ss', W('ind', '/g1/ind'), 'ea_set /g1/ind user.i ii',
            W('ind', '/ind'), 'ea_set /ind user.i ii', 'ea_set /g1 user.dir dv']       # the directory's own EA block lands outside the region: a conversion that mishandles files still gets through its directory pass
    script = os.path.join(sc, 'iexpand.dbg'); open(script, 'w').write('\n'.join(cmds) + '\n')
    rc, out = run([tool('debugfs'), '-w', '-f', script, img], env=env); assert rc == 0, out
    rc, out = run([tool('e2fsck'), '-fn', img], env=env); assert rc == 0, out
    data = open(img, 'rb').read()
    from xck.check import check as xcheck
    v = xcheck(data); assert not v, v
    rc, out = run([tool('dumpe2fs'), img], env=env); print('\n'.join(l for l in out.splitlines() if 'Inode table' in l or 'free blocks' in l))
    for n in ('/a1', '/a2', '/dev', '/slow', '/g1', '/g1/b1', '/g1/b2', '/g1/slow', '/g1/ind', '/ind'):
        rc, out = run([tool('debugfs'), '-R', 'stat %s' % n, img], env=env)
        import re
        print(n, 'ino', re.search(r'Inode: (\d+)', out).group(1), 'acl', re.search(r'File ACL: (\d+)', out).group(1), 'blocks', out.split('BLOCKS:')[-1].strip()[:80] if 'BLOCKS:' in out else '-')
    open(os.path.join(VERIF, 'corpus', 'iexpand.img.xz'), 'wb').write(lzma.compress(data, preset=6))
    print('iexpand built')
if __name__ == '__main__' and len(sys.argv) > 1 and sys.argv[1] == 'iexpand':
    build_iexpand()

def build_lpffull():
    """corpus/lpffull.img.xz: bigalloc + quota, /lost+found is a single nearly full block inside a 4-block cluster, and a small tree of directories:
    any repair that reconnects even one inode has to expand /lost+found (first inside the cluster it owns, then into new clusters)"""
    sc = scratch(); env = tool_env()
    img = os.path.join(sc, 'lpffull.img'); root = os.path.join(sc, 'lpffull.root')
    os.makedirs(root + '/d1/d2/d3'); os.makedirs(root + '/e1')
    pat = lambda n, s=1: bytes(((i * 7 + s) & 0xff) for i in range(n))
    for i in range(5): open(root + '/d1/f%d' % i, 'wb').write(pat(300 * (i + 1), i))
    for i in range(3): open(root + '/d1/d2/g%d' % i, 'wb').write(pat(5000, i + 10))
    for i in range(2): open(root + '/d1/d2/d3/h%d' % i, 'wb').write(b'h%d\n' % i)
    for i in range(24): open(root + '/e1/%s%02d' % ('e' * 40, i), 'wb').write(b'')
    open(root + '/top', 'wb').write(pat(9000, 3)); os.symlink('x' * 80, root + '/slow')
    os.chown(root + '/d1/f1', 1000, 1000); os.chown(root + '/d1/d2', 1000, 70000)
    rc, out = run([tool('mke2fs'), '-q', '-F', '-t', 'ext4', '-O', '^has_journal,bigalloc,quota,metadata_csum,^resize_inode', '-C', '4096', '-b', '1024', '-I', '256', '-N', '128', '-U', UUID,
                   '-E', 'hash_seed=' + SEED + ',lazy_itable_init=0', '-d', root, img, '2048'], env=env)
    assert rc == 0, out
    cmds = ['rmdir /lost+found', 'mkdir /lost+found'] + ['write /dev/null /lost+found/%s' % (c * n) for c, n in (('A', 250), ('B', 250), ('C', 250), ('D', 180))]
    script = os.path.join(sc, 'lpffull.dbg'); open(script, 'w').write('\n'.join(cmds) + '\n')
    rc, out = run([tool('debugfs'), '-w', '-f', script, img], env=env); assert rc == 0, out
    rc, out = run([tool('e2fsck'), '-fy', img], env=env); assert rc in (0, 1), out          # settles quota usage after the debugfs edits
    rc, out = run([tool('e2fsck'), '-fn', img], env=env); assert rc == 0, out
    data = open(img, 'rb').read()
    from xck.check import check as xcheck
    v = xcheck(data); assert not v, v
    rc, out = run([tool('debugfs'), '-R', 'stat /lost+found', img], env=env); print('\n'.join(l for l in out.splitlines() if 'Size:' in l or 'Blockcount' in l or l.startswith('(')))
    rc, out = run([tool('debugfs'), '-R', 'ls -l /lost+found', img], env=env); print(out[:600])
    open(os.path.join(VERIF, 'corpus', 'lpffull.img.xz'), 'wb').write(lzma.compress(data, preset=6))
    print('lpffull built', len(data))
if __name__ == '__main__' and len(sys.argv) > 1 and sys.argv[1] == 'lpffull':
    build_lpffull()

if __name__ == '__main__' and len(sys.argv) > 1 and sys.argv[1] == 'casefold':
    # casefold feature on, but every directory of the standard tree is an ordinary (case-sensitive) one
    build('casefold', ['-t', 'ext4', '-O', '^has_journal,casefold,metadata_csum,^resize_inode', '-I', '256', '-N', '1024', '-g', '256'], 3072, post=[D])

def build_deepext():
    """corpus/deepext.img.xz: metadata_csum, 1 KiB blocks; /deep has 400 single-block extents (every other block) -> extent tree of depth 2
    (4 root entries x 84 per 1 KiB node hold at most 336 extents at depth 1), /mid has 100 extents (depth 1, two leaves), plus a few plain files"""
    sc = scratch(); env = tool_env()
    img = os.path.join(sc, 'deepext.img'); root = os.path.join(sc, 'deepext.root')
    os.makedirs(root + '/d')
    pat = lambda n, s=1: bytes(((i * 7 + s) & 0xff) for i in range(n))
    with open(root + '/deep', 'wb') as f:
        for i in range(400):
            f.seek(2 * i * 1024); f.write(pat(1024, i))
    with open(root + '/mid', 'wb') as f:
        for i in range(100):
            f.seek(3 * i * 1024); f.write(pat(1024, 200 + i))
    open(root + '/small', 'wb').write(b'small\n'); open(root + '/d/x', 'wb').write(pat(3000, 7)); os.symlink('x' * 80, root + '/slow')
    os.chown(root + '/deep', 1000, 1000)
    rc, out = run([tool('mke2fs'), '-q', '-F', '-t', 'ext4', '-O', '^has_journal,metadata_csum,64bit,^resize_inode', '-b', '1024', '-g', '512', '-I', '256', '-N', '64', '-U', UUID,
                   '-E', 'hash_seed=' + SEED + ',lazy_itable_init=0', '-d', root, img, '1536'], env=env)
    assert rc == 0, out
    rc, out = run([tool('debugfs'), '-w', '-R', 'ea_set /deep user.big %s' % ('B' * 300), img], env=env); assert rc == 0, out
    rc, out = run([tool('e2fsck'), '-fn', img], env=env); assert rc == 0, out
    data = open(img, 'rb').read()
    from xck.check import check as xcheck
    v = xcheck(data); assert not v, v
    rc, out = run([tool('debugfs'), '-R', 'ex /deep', img], env=env); print('\n'.join(out.splitlines()[:8])); print('extent lines:', len(out.splitlines()))
    rc, out = run([tool('debugfs'), '-R', 'stat /deep', img], env=env); print('\n'.join(l for l in out.splitlines() if 'depth' in l.lower() or 'Blockcount' in l)[:300])
    open(os.path.join(VERIF, 'corpus', 'deepext.img.xz'), 'wb').write(lzma.compress(data, preset=6))
    print('deepext built', len(data))
if __name__ == '__main__' and len(sys.argv) > 1 and sys.argv[1] == 'deepext':
    build_deepext()

if __name__ == '__main__' and len(sys.argv) > 1 and sys.argv[1] == 'desc128':
    # 128-byte group descriptors (bytes 64..127 are covered by the descriptor checksum and otherwise unused), metadata_csum; three groups
    build('desc128', ['-t', 'ext4', '-O', '^has_journal,metadata_csum,64bit,^resize_inode', '-E', 'desc_size=128', '-I', '256', '-N', '256', '-g', '512'], 1536, post=[D])

if __name__ == '__main__' and len(sys.argv) > 1 and sys.argv[1] == 'hurd':
    # creator OS Hurd: the osd2 part of the inode has another meaning (h_i_frag, h_i_fsize, h_i_mode_high, h_i_author) and e2fsck has Hurd-only checks
    build('hurd', ['-t', 'ext2', '-o', 'hurd', '-O', '^resize_inode', '-N', '256'] + ['-g', '256'], 1536, post=[D])

if __name__ == '__main__' and len(sys.argv) > 1 and sys.argv[1] == 'links65000':
    # a directory with exactly 64998 sub-directories (i_links_count 65000 = EXT2_LINK_MAX, the last value before the dir_nlink overflow rule); inline_data keeps the
    # empty sub-directories inside their inodes.  Built with: mke2fs -t ext4 -O ^has_journal,inline_data -b 1024 -N 66000 img 40M; debugfs: mkdir /big; 64998 x mkdir /big/dN
    # (takes about a minute: every insert scans the linear directory).  Not part of fsweep.CORPUS: only C05 part j uses it.
    sc = scratch(); img = os.path.join(sc, 'links65000.img')
    rc, out = run([tool('mke2fs'), '-q', '-F', '-t', 'ext4', '-O', '^has_journal,inline_data', '-b', '1024', '-N', '66000', img, '40M'], env=tool_env()); assert rc == 0, out
    sp = os.path.join(sc, 'big.dbg'); open(sp, 'w').write('mkdir /big\ncd /big\n' + ''.join('mkdir d%d\n' % i for i in range(64998)))
    rc, out = run([tool('debugfs'), '-w', '-f', sp, img], env=tool_env(), timeout=900); assert rc == 0
    rc, out = run([tool('e2fsck'), '-fn', img], env=tool_env()); assert rc == 0, out
    open(os.path.join(VERIF, 'corpus', 'links65000.img.xz'), 'wb').write(lzma.compress(open(img, 'rb').read(), preset=6))
