#!/bin/bash
# trymutant.sh <patch.diff> <ID> [tier] [extra vcheck args]  -- run one check against a scratch worktree of /repo with a patch applied.
# Development aid only (seeded-change experiments); nothing registered in MANIFEST.json uses it.  Leaves /repo untouched.
set -e
PATCH=$(readlink -f "$1"); ID=$2; TIER=${3:-quick}; shift; shift; shift || true
M=${MUT_ROOT:-/tmp/mut}
VERIF=$(cd "$(dirname "$0")/.." && pwd)
mkdir -p $M
if [ ! -d $M/repo ]; then git -C /repo worktree add --detach $M/repo HEAD >/dev/null; fi
git -C $M/repo checkout -q --detach $(git -C /repo rev-parse HEAD); git -C $M/repo checkout -- . ; git -C $M/repo clean -fdq
[ "$PATCH" = "$(readlink -f /dev/null)" ] || git -C $M/repo apply "$PATCH"
export VERIF_REPO=$M/repo VERIF_BUILD_ROOT=$M/build VERIF_OUT=$M/out
set +e
$VERIF/tools/vcheck $ID --tier $TIER "$@" > $M/$ID.log 2>&1
rc=$?
echo "exit=$rc  violations: $(grep -c '^VIOLATION' $M/$ID.log)  known: $(grep -c '^KNOWN-FINDING' $M/$ID.log)"
grep -A1 '^VIOLATION' $M/$ID.log | head -6 | cut -c1-300
tail -1 $M/$ID.log | cut -c1-300
git -C $M/repo checkout -- .
exit $rc
