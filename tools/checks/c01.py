"""C01: e2fsck repairs converge -- every catalogue mutant: e2fsck -fy, then (if it claimed success) e2fsck -fn must be silent and exit 0."""
import os, json, time
from vlib.common import *
from vlib import fsweep

BAD_BITS = 4 | 8 | 16 | 32 | 128
def pipeline(job):
    mid, name, parts = job
    data = fsweep.make_multi(name, parts)
    p = fsweep.worker_path()
    with open(p, 'wb') as f: f.write(data)
    log1 = p + '.p1'; log2 = p + '.p2'
    for l in (log1, log2):
        if os.path.exists(l): os.unlink(l)
    rc1, out1 = run([E2FSCK, '-fy', '-E', 'problem_log=' + log1, p], timeout=30)
    codes1 = [c for c, a in fsweep.read_problem_log(log1)]
    if rc1 == 'TIMEOUT' or not isinstance(rc1, int) or rc1 < 0 or rc1 >= 256:
        return (mid, 'abnormal', rc1, codes1, None, None, out1[-300:])
    if rc1 & BAD_BITS:
        return (mid, 'declined', rc1, codes1, None, None, '')
    rc2, out2 = run([E2FSCK, '-fn', '-E', 'problem_log=' + log2, p], timeout=30)
    codes2 = [c for c, a in fsweep.read_problem_log(log2)]
    ok = rc2 == 0 and not codes2
    return (mid, 'ok' if ok else 'NONCONVERGENT', rc1, codes1, rc2, codes2, '' if ok else out2[-1500:])

def jobs_for(name, tier):
    singles = fsweep.mutant_list(name)
    return [(mid, name, [(off, size, v, seal)]) for mid, off, size, v, seal in singles], singles

def main(tier, only=None):
    global E2FSCK
    ck = Check('C01', tier, 'fault_enumeration')
    E2FSCK = tool('e2fsck')
    fsweep.init_scratch()
    bases = only or (['hurd'] + fsweep.QUICK_BASES + ['bigquota', 'lpffull'] if tier == 'quick' else fsweep.SWEEP_BASES)      # bigquota: cluster-granular quota accounting of the repairs
    ck.set_deadline(330 if tier == 'quick' else 2700)
    allcodes = set(); total = 0; nconv = 0; declined = 0; distinct_sig = set()
    per = {}
    for name in bases:
        # k = 0
        r0 = pipeline(('%s/k0' % name, name, []))
        if r0[1] != 'ok' or r0[2] != 0:
            ck.violation('%s/k0' % name, {'base': name, 'parts': [], 'result': r0[1:], 'what': 'e2fsck -fy / -fn on the pristine corpus image is not clean'})
            continue
        jobs, singles = jobs_for(name, tier)
        res = pmap(pipeline, jobs, chunksize=16)
        by_mid = {s[0]: s for s in singles}
        reps = {}
        for (mid, st, rc1, codes1, rc2, codes2, txt), job in zip(res, jobs):
            total += 1
            allcodes.update(codes1)
            if st == 'declined': declined += 1
            if st == 'abnormal':
                continue    # crashes/timeouts are C06's subject, not C01's
            if st == 'NONCONVERGENT':
                nconv += 1
                ck.violation(mid, {'base': name, 'parts': job[2], 'rc_fy': rc1, 'codes_fy': ['0x%06x' % c for c in codes1], 'rc_fn': rc2,
                                   'codes_fn': ['0x%06x' % c for c in codes2], 'second_run_output': txt})
            sig = (mid.split('/')[1].split('.')[0].rstrip('0123456789'), tuple(sorted(set(codes1))))
            if codes1 and sig not in reps:
                reps[sig] = by_mid[mid]
            distinct_sig.add((name,) + sig)
        per[name] = {'k1_mutants': len(jobs), 'representatives': len(reps)}
        # k = 2 over representative pairs (thorough)
        if tier == 'thorough' and not ck.expired():
            rl = list(reps.values())[:160]
            pj = [(mid, name, [tuple(x) for x in parts]) for mid, parts in fsweep.pair_list(name, rl)]
            res = pmap(pipeline, pj, chunksize=16)
            for (mid, st, rc1, codes1, rc2, codes2, txt), job in zip(res, pj):
                total += 1; allcodes.update(codes1)
                if st == 'NONCONVERGENT':
                    nconv += 1
                    ck.violation(mid, {'base': name, 'parts': job[2], 'rc_fy': rc1, 'codes_fy': ['0x%06x' % c for c in codes1], 'rc_fn': rc2,
                                       'codes_fn': ['0x%06x' % c for c in codes2], 'second_run_output': txt})
            per[name]['k2_pairs'] = len(pj)
        if ck.expired():
            ck.add(exhaustive=False); break
    ck.add(evaluations=total, distinct_nontrivial=len(distinct_sig), states=total, transitions=2 * total, traces_validated_against_impl=total,
           rule='mutant = corpus image with one catalogue field (xck.layout) set to one value of its boundary alphabet, with and without re-sealed checksum; '
                'thorough adds all pairs of representatives (one per object kind x problem-code set); distinct = distinct (base, object kind, set of e2fsck problem codes raised in run 1)',
           samples=[j[0] for j in jobs[:3]] + [j[0] for j in jobs[-2:]])
    ck.cov['bases'] = per
    ck.cov['distinct_problem_codes_exercised'] = len(allcodes)
    ck.cov['runs_where_e2fsck_declined_or_left_errors'] = declined
    ck.assumptions += ['images within <=1 (thorough: <=2 representative) corrupted catalogue fields of the 14 committed corpus images; crashes/timeouts of run 1 are counted under C06']
    return ck.finish()

def replay(path):
    global E2FSCK
    d = json.load(open(path))
    E2FSCK = tool('e2fsck'); fsweep.init_scratch()
    det = d['detail']
    r = pipeline((d['case'], det['base'], [tuple(x) for x in det['parts']]))
    print(json.dumps(r, indent=1))
    print('replay verdict:', 'VIOLATION reproduced' if r[1] == 'NONCONVERGENT' else r[1])
    return 1 if r[1] == 'NONCONVERGENT' else 0
