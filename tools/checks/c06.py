"""C06: no memory-safety violation, crash or hang on corrupted input -- AddressSanitizer builds of every tool over
(i) every single-field catalogue mutant of corpus images, (ii) every byte of the metadata blocks of a tiny image under four treatments,
(iii) byte/field mutants of an external journal, an undo file and a qcow2 image; thorough adds (iv) representative pairs."""
import os, json, re, struct, subprocess, lzma
from vlib.common import *
from vlib import fsweep
from xck.image import Image
from xck import layout

FLOODS = []
ASAN_RE = re.compile(r'ERROR: AddressSanitizer|ERROR: LeakSanitizer|SUMMARY: AddressSanitizer|runtime error:')
TMO = 20

# documented exit statuses
def status_ok(tool_, rc):
    if not isinstance(rc, int): return False
    if rc < 0 or rc == 99: return False
    if tool_ == 'e2fsck': return rc < 256 and (rc & ~(1 | 2 | 4 | 8 | 16 | 32 | 128)) == 0
    # the other tools document only "0 on success, non-zero on failure" (dumpe2fs.8) or nothing at all: any status a normal exit can produce is accepted
    return 0 <= rc < 256

def classify(tool_, argv, rc, out):
    """None if fine, else (kind, text)"""
    _m = re.search(r'\[output shortened, (\d+) bytes in total\]', out) if rc == 'TIMEOUT' else None
    if rc == 'TIMEOUT' and ('[output flood' in out or (_m and int(_m.group(1)) > (8 << 20))):
        # (also when the limit was not reached but megabytes of messages had been printed when the time ran out: the tool was busy reporting, not stuck)
        # tens of megabytes of messages (one per block of a range that a corrupt pointer or count makes millions of blocks long): the run is cut there.  It is
        # neither a crash nor shown to be a hang; the case is counted as inconclusive (evidence: output_floods) and nothing is claimed for it
        FLOODS.append(' '.join(os.path.basename(a) for a in argv[:3]))
        return None
    if rc == 'TIMEOUT': return ('hang', 'no exit within %d s' % TMO)
    if ASAN_RE.search(out) or rc == 99:
        m = re.search(r'(ERROR: AddressSanitizer[^\n]*)', out)
        fr = re.findall(r'#\d+ 0x[0-9a-f]+ in (\S+) ([^\n]*)', out)[:4]
        return ('asan', (m.group(1) if m else 'sanitizer report') + ' @ ' + ' < '.join(f[0] for f in fr))
    if isinstance(rc, int) and rc < 0: return ('signal', 'killed by signal %d: %s' % (-rc, out[-200:]))
    if not status_ok(tool_, rc): return ('status', 'undocumented exit status %s' % rc)
    return None

def invocations(p, quick, extra=None):
    """[(label, tool, argv, needs_copy)]"""
    inv = [('e2fsck -fn', 'e2fsck', [T['e2fsck'], '-fn', p], False),
           ('e2fsck -fy', 'e2fsck', [T['e2fsck'], '-fy', p], True),
           ('dumpe2fs', 'dumpe2fs', [T['dumpe2fs'], p], False),
           ('debugfs script', 'debugfs', [T['debugfs'], '-f', DBG_SCRIPT, p], False)]
    if not quick:
        inv += [('e2fsck -fp', 'e2fsck', [T['e2fsck'], '-fp', p], True), ('dumpe2fs -x -b', 'dumpe2fs', [T['dumpe2fs'], '-x', '-b', p], False), ('tune2fs -l', 'tune2fs', [T['tune2fs'], '-l', p], False),
                ('resize2fs -P', 'resize2fs', [T['resize2fs'], '-P', p], False), ('e2image -r', 'e2image', [T['e2image'], '-r', p, p + '.e2i'], False),
                ('e2image -Q', 'e2image', [T['e2image'], '-Q', p, p + '.qc'], False), ('e2freefrag', 'e2freefrag', [T['e2freefrag'], p], False),
                ('debugfs -c script', 'debugfs', [T['debugfs'], '-c', '-f', DBG_SCRIPT, p], False), ('e2fsck -fyD', 'e2fsck', [T['e2fsck'], '-fyD', p], True)]
    return inv

def run_all(data, p, quick, only_labels=None):
    bad = []; n = 0
    for label, tool_, argv, copy in invocations(p, quick):
        if only_labels and label not in only_labels: continue
        with open(p, 'wb') as f: f.write(data)
        for x in (p + '.e2i', p + '.qc'):
            if os.path.exists(x): os.unlink(x)
        rc, out = run(argv, timeout=TMO)
        n += 1
        c = classify(tool_, argv, rc, out)
        if c and c[0] == 'hang':
            with open(p, 'wb') as f: f.write(data)
            rc, out = run(argv, timeout=150)        # re-run alone with a long limit before calling it a hang
            c = classify(tool_, argv, rc, out)
            if c and c[0] == 'hang': c = ('hang', 'no exit within 150 s')
        if c: bad.append((label, c[0], c[1]))
    for x in (p + '.e2i', p + '.qc'):
        if os.path.exists(x): os.unlink(x)
    return bad, n

def job_fs(j):
    mid, name, parts, quick = j
    data = fsweep.make_multi(name, parts)
    bad, n = run_all(data, fsweep.worker_path('c6'), quick)
    return (mid, bad, n)

def job_bytes(j):
    """tiny image, one byte replaced"""
    mid, off, val, quick = j
    d = bytearray(TINY); d[off] = val
    bad, n = run_all(bytes(d), fsweep.worker_path('c6b'), True, only_labels=('e2fsck -fn', 'e2fsck -fy', 'dumpe2fs', 'debugfs script') if not quick else ('e2fsck -fn', 'e2fsck -fy'))
    return (mid, bad, n)

def job_undo_struct(mid):
    p = fsweep.worker_path('c6u'); aux = p + '.aux'
    main_ = AUX['undo'][0]
    bad = []; n = 0
    for label, argv in (('e2undo -n', [T['e2undo'], '-n', aux, p]), ('e2undo', [T['e2undo'], aux, p]), ('e2undo -f', [T['e2undo'], '-f', aux, p])):
        with open(p, 'wb') as f: f.write(main_)
        with open(aux, 'wb') as f: f.write(UNDO_STRUCT[mid])
        rc, out = run(argv, timeout=TMO); n += 1
        c = classify('e2undo', argv, rc, out)
        if c and c[0] == 'hang':
            rc, out = run(argv, timeout=150); c = classify('e2undo', argv, rc, out)
        if c: bad.append((label, c[0], c[1]))
    return (mid, bad, n)

def job_sbpair(j):
    mid, quick = j
    labels = ('e2fsck -fn', 'dumpe2fs', 'debugfs script') if quick else ('e2fsck -fn', 'e2fsck -fy', 'dumpe2fs', 'debugfs script', 'e2image -r', 'tune2fs -l', 'resize2fs -P', 'e2freefrag')
    bad, n = run_all(SBJ[mid], fsweep.worker_path('c6s'), False, only_labels=labels)
    return (mid, bad, n)

def job_aux(j):
    """auxiliary file (external journal / undo file / qcow2) with one byte replaced"""
    mid, kind, off, val = j
    p = fsweep.worker_path('c6x'); aux = p + '.aux'
    main_, auxd = AUX[kind]
    a = bytearray(auxd); a[off] = val
    with open(p, 'wb') as f: f.write(main_)
    with open(aux, 'wb') as f: f.write(a)
    if kind == 'extjournal':
        cmds = [('e2fsck -fn -j', 'e2fsck', [T['e2fsck'], '-fn', '-j', aux, p]), ('e2fsck -fy -j', 'e2fsck', [T['e2fsck'], '-fy', '-j', aux, p]),
                ('debugfs logdump -f', 'debugfs', [T['debugfs'], '-R', 'logdump -f %s' % aux, p]), ('dumpe2fs journal dev', 'dumpe2fs', [T['dumpe2fs'], aux])]
    elif kind == 'undo':
        cmds = [('e2undo -n', 'e2undo', [T['e2undo'], '-n', aux, p]), ('e2undo', 'e2undo', [T['e2undo'], aux, p]), ('e2undo -f', 'e2undo', [T['e2undo'], '-f', aux, p])]
    else:
        cmds = [('e2image -r qcow2', 'e2image', [T['e2image'], '-r', aux, p + '.out'])]
    bad = []; n = 0
    for label, tool_, argv in cmds:
        with open(p, 'wb') as f: f.write(main_)
        with open(aux, 'wb') as f: f.write(a)
        rc, out = run(argv, timeout=TMO); n += 1
        c = classify(tool_, argv, rc, out)
        if c and c[0] == 'hang':
            rc, out = run(argv, timeout=150); c = classify(tool_, argv, rc, out)
        if c: bad.append((label, c[0], c[1]))
    if os.path.exists(p + '.out'): os.unlink(p + '.out')
    return (mid, bad, n)

def dbg_script(img):
    """read-only debugfs commands over the live inodes of the base image"""
    cmds = ['stats', 'ls -l /', 'ls -l /hx', 'ls -l /lin', 'ls -l /d1/d2', 'htree /hx', 'htree /hx2', 'dx_hash -h half_md4 abc', 'logdump -a', 'ncheck 12 13 14 15 16', 'icheck 40 41 100 200',
            'ex /frag', 'ex /f12', 'ex /sparse', 'dump_extents /hx', 'blocks /f12', 'bmap /sparse 268', 'ea_list /bs', 'ea_get /bs user.big',
            'ea_list /one', 'ea_list /d1', 'stat /lnk_long', 'stat /lnk_short', 'stat /chr', 'stat /hard', 'inode_dump /one', 'inode_dump -b /f12', 'imap /one', 'testi /one', 'ffb 3', 'ffi', 'dirsearch / one', 'dirsearch /hx2 nosuchname', 'dirsearch /lin n05',
            'get_quota user 0', 'list_quota user', 'supported_features', 'dump_mmp', 'stat <7>', 'stat <8>', 'stat <2>', 'ls -l <11>', 'lsdel']
    # no cat/dump/rdump/dump_unused: their running time is proportional to i_size / device size, which a corrupted field can make astronomically large
    # without any defect in the tool (a sparse 2^60-byte file is dumped as 2^60 zero bytes); that is not the property's "hang"
    return '\n'.join(cmds) + '\n'

def main(tier, only=None):
    global T, DBG_SCRIPT, TINY, AUX
    TINY = None
    ck = Check('C06', tier, 'fault_enumeration')
    quick = tier == 'quick'
    T = {k: tool(k, 'asan') for k in ('e2fsck', 'dumpe2fs', 'debugfs', 'tune2fs', 'resize2fs', 'e2image', 'e2freefrag', 'e2undo', 'mke2fs')}
    fsweep.init_scratch()
    DBG_SCRIPT = os.path.join(scratch(), 'ro.dbg'); open(DBG_SCRIPT, 'w').write(dbg_script(None))
    ck.set_deadline(400 if quick else 3000)
    only_bases = [x for x in (only or []) if x in fsweep.CORPUS] or None
    parts = [x for x in (only or []) if x not in fsweep.CORPUS] or ['i', 'ii', 'iii', 'iv']
    total = 0; sig = {}
    def record(mid, bad, detail):
        for label, kind, text in bad:
            # one finding per (tool invocation, kind, top frames): the case id carries the root-cause signature so that known findings can name it
            s = re.sub(r'0x[0-9a-f]+', 'X', text)[:160]
            sig.setdefault((label, kind, s), 0); sig[(label, kind, s)] += 1
            d = dict(detail); d.update({'invocation': label, 'kind': kind, 'what': text, 'signature': '%s | %s | %s' % (label, kind, s)})
            ck.violation(mid + ' :: ' + label, d)
    # ---- (i) catalogue mutants
    if 'i' in parts:
        bases = (only_bases or ['ext4csum']) if quick else (only_bases or [b for b in fsweep.SWEEP_BASES])
        for name in bases:
            if ck.expired(): ck.add(exhaustive=False); break
            singles = fsweep.mutant_list(name, sealed=(False, True))
            if quick:
                # quick: sealed variants where a checksum would otherwise hide the field, unsealed elsewhere
                keep = {}
                for m in singles:
                    k = (m[1], m[2], m[3])
                    if k not in keep or m[4] is not None: keep[k] = m
                singles = list(keep.values())
            jobs = [(mid, name, [(off, size, v, seal)], quick) for mid, off, size, v, seal in singles]
            res = pmap(job_fs, jobs, chunksize=8)
            for (mid, bad, n), j in zip(res, jobs):
                total += n
                if bad: record(mid, bad, {'part': 'i', 'base': name, 'parts': j[2]})
            ck.part('i_' + name, mutants=len(jobs))
    # ---- (ii) every metadata byte of a tiny image
    if 'ii' in parts and not ck.expired():
        p = os.path.join(scratch(), 'tiny.img'); root = os.path.join(scratch(), 'tinyroot'); os.makedirs(root + '/d')
        open(root + '/a', 'wb').write(b'A' * 3000); open(root + '/d/b', 'wb').write(b'b'); os.symlink('a', root + '/l'); os.symlink('x' * 80, root + '/ll')
        rc, out = run([tool('mke2fs'), '-q', '-F', '-t', 'ext4', '-O', 'metadata_csum,^resize_inode,^has_journal,inline_data', '-b', '1024', '-N', '16', '-I', '256', '-U', '6b33f586-a183-4383-921d-30ab132db9b9',
                       '-E', 'hash_seed=a0c4b9f1-7e1d-4c6b-8f4e-9d2f1b3c5a70', '-d', root, p, '128'], timeout=60)
        if rc == 0:
            run([tool('debugfs'), '-w', '-R', 'ea_set /a user.big %s' % ('E' * 300), p])
            TINY = open(p, 'rb').read()
            im = Image(TINY)
            M = sorted(layout.metadata_blocks(im))
            jobs = []
            for b in M:
                blk = TINY[b * im.bs:(b + 1) * im.bs]
                if not any(blk): continue
                for o in range(im.bs):
                    if quick and blk[o] == 0 and o % 4: continue        # quick: zero bytes only at 4-byte stride
                    old = blk[o]
                    for val in sorted(set([0, 0xff, old ^ 1, old ^ 0x80]) - {old}):
                        jobs.append(('tiny/blk%d+%d=0x%02x' % (b, o, val), b * im.bs + o, val, quick))
            if quick: jobs = [j for j in jobs if j[2] in (0xff,) or (j[1] % 3 == 0)]
            res = pmap(job_bytes, jobs, chunksize=32)
            for (mid, bad, n), j in zip(res, jobs):
                total += n
                if bad: record(mid, bad, {'part': 'ii', 'off': j[1], 'val': j[2]})
            ck.part('ii_tiny_image_bytes', mutants=len(jobs), metadata_blocks=len(M))
    # ---- (ii-b) pairs of superblock geometry fields on the one-group tiny image (k = 2 inside the superblock)
    if 'ii' in parts and not ck.expired() and 'TINY' in globals() and TINY:
        import struct as _st
        from xck.image import SB_FIELDS
        geo = ['s_inodes_count', 's_blocks_count_lo', 's_first_data_block', 's_log_block_size', 's_log_cluster_size', 's_blocks_per_group', 's_clusters_per_group', 's_inodes_per_group',
               's_first_ino', 's_inode_size', 's_reserved_gdt_blocks', 's_desc_size', 's_first_meta_bg', 's_log_groups_per_flex', 's_feature_incompat', 's_feature_ro_compat', 's_rev_level']
        fl = [(n, o, z) for n, o, z in SB_FIELDS if n in geo]
        singles = []
        for n, o, z in fl:
            old = int.from_bytes(TINY[1024 + o:1024 + o + z], 'little'); top = (1 << (8 * z)) - 1
            for v in sorted(set([0, 1, top, top - 6, old + 1, (old - 1) & top, (old * 2) & top, 1 << (8 * z - 1)]) - {old}):
                singles.append((n, o, z, v))
        from xck.crc import crc32c as _crc
        def sbmut(parts_):
            d = bytearray(TINY)
            for n, o, z, v in parts_: d[1024 + o:1024 + o + z] = v.to_bytes(z, 'little')
            d[1024 + 0x3FC:1024 + 0x400] = _st.pack('<I', _crc(0xffffffff, bytes(d[1024:1024 + 0x3FC])))
            return bytes(d)
        pj = []
        for i in range(len(singles)):
            for k in range(i + 1, len(singles)):
                a, b = singles[i], singles[k]
                if a[0] == b[0]: continue
                if quick and not ({a[0], b[0]} & {'s_inodes_per_group', 's_blocks_per_group', 's_clusters_per_group', 's_inodes_count'}): continue
                pj.append(('tiny/sb.%s=0x%x&%s=0x%x' % (a[0], a[3], b[0], b[3]), [a, b]))
        SBJ = {mid: sbmut(parts_) for mid, parts_ in pj}
        globals()['SBJ'] = SBJ
        res = pmap(job_sbpair, [(mid, quick) for mid, _ in pj], chunksize=16)
        for mid, bad, n in res:
            total += n
            if bad: record(mid, bad, {'part': 'ii-b', 'mutant': mid})
        ck.part('iib_superblock_geometry_pairs', mutants=len(pj), fields=len(fl))
    # ---- (iii) auxiliary files
    if 'iii' in parts and not ck.expired():
        AUX = {}
        # external journal with two committed transactions (written by the independent writer)
        from checks import c03
        (fsd, jd), v, c, J = c03.build_case({'base': 'extj', 'fmt': '64-v3', 'txns': [{'items': [['D', ['A', 'eB']]]}, {'items': [['R', ['A']], ['D', ['C']]]}, c03.TAIL]})
        AUX['extjournal'] = (fsd, jd)
        # undo file recorded by tune2fs
        p = os.path.join(scratch(), 'u.img'); u = p + '.undo'
        open(p, 'wb').write(fsweep.base_data('ext2'))
        rc, out = run([tool('tune2fs'), '-z', u, '-O', 'dir_index', '-L', 'x', p], timeout=60)
        if os.path.exists(u):
            AUX['undo'] = (open(p, 'rb').read(), open(u, 'rb').read())
        q = os.path.join(scratch(), 'q.qcow2')
        rc, out = run([tool('e2image'), '-Q', p, q], timeout=60)
        if os.path.exists(q):
            AUX['qcow2'] = (b'', open(q, 'rb').read())
        jobs = []
        for kind, (m, a) in AUX.items():
            # every byte of the non-zero header/key/table regions (first 8 KiB, and for the journal every log block that was written)
            offs = [o for o in range(min(len(a), 8192)) if (a[o] or o % 4 == 0)]
            if kind == 'extjournal':
                bs = c['bs']
                for pos, k_, t, info in J.log:
                    if k_ != 'data': offs += [pos * bs + o for o in range(0, 64)] + [pos * bs + bs - 4 + o for o in range(4)]
            if kind == 'qcow2':
                offs = [o for o in range(len(a)) if a[o]][:6000] if not quick else [o for o in range(min(len(a), 2048)) if a[o] or o % 4 == 0]
            if quick: offs = offs[::3]
            for o in sorted(set(offs)):
                if o >= len(a): continue
                old = a[o]
                for val in sorted(set([0, 0xff, old ^ 1, old ^ 0x80]) - {old}) if not quick else sorted(set([0xff, old ^ 1]) - {old}):
                    jobs.append(('%s+%d=0x%02x' % (kind, o, val), kind, o, val))
        # structured mutants of the undo file with re-sealed checksums (header crc, key-block crc): the size/offset arithmetic behind the checksum gate
        if 'undo' in AUX:
            from xck.crc import crc32c as _c
            ud = AUX['undo'][1]
            ubs = struct.unpack_from('<I', ud, 32)[0] or 1024
            koff = struct.unpack_from('<Q', ud, 24)[0] * ubs
            fields = [('hdr.num_keys', 8, 8), ('hdr.super_offset', 16, 8), ('hdr.key_offset', 24, 8), ('hdr.block_size', 32, 4), ('hdr.fs_block_size', 36, 4), ('hdr.state', 44, 4), ('hdr.fs_offset', 64, 8)]
            nk = min(3, struct.unpack_from('<Q', ud, 8)[0])
            for k in range(nk):
                fields += [('key%d.fsblk' % k, koff + 16 + 16 * k, 8), ('key%d.blk_crc' % k, koff + 16 + 16 * k + 8, 4), ('key%d.size' % k, koff + 16 + 16 * k + 12, 4)]
            AUX['undo_struct'] = AUX['undo']
            SJ = {}
            for name, o, z in fields:
                if o + z > len(ud): continue
                old = int.from_bytes(ud[o:o + z], 'little'); top = (1 << (8 * z)) - 1
                for v in sorted(set([0, 1, top, top - 1022, top - ubs + 1, 1 << (8 * z - 1), (old + 1) & top, (old - 1) & top, 512 * ubs + 1, 513 * ubs, ubs - 1]) - {old}):
                    b = bytearray(ud); b[o:o + z] = v.to_bytes(z, 'little')
                    if o >= koff and koff + ubs <= len(b):
                        b[koff + 4:koff + 8] = b'\0\0\0\0'
                        struct.pack_into('<I', b, koff + 4, _c(0xffffffff, bytes(b[koff:koff + ubs])))
                    struct.pack_into('<I', b, 508, _c(0xffffffff, bytes(b[:508])))
                    SJ['undo/%s=0x%x+seal' % (name, v)] = bytes(b)
            globals()['UNDO_STRUCT'] = SJ
            sres = pmap(job_undo_struct, sorted(SJ), chunksize=8)
            for mid, bad, n in sres:
                total += n
                if bad: record(mid, bad, {'part': 'iii-struct', 'mutant': mid})
            ck.part('iii_undo_structured', mutants=len(SJ))
        res = pmap(job_aux, jobs, chunksize=16)
        for (mid, bad, n), j in zip(res, jobs):
            total += n
            if bad: record(mid, bad, {'part': 'iii', 'kind': j[1], 'off': j[2], 'val': j[3]})
        ck.part('iii_aux_files', mutants=len(jobs), kinds=sorted(AUX))
    # ---- (iv) representative pairs (thorough)
    if 'iv' in parts and not quick and not ck.expired():
        c01reps = {}
        for name in ('ext4csum', 'ext2dx', 'inline', 'ext3'):
            singles = fsweep.mutant_list(name, sealed=(True,)) or fsweep.mutant_list(name, sealed=(False,))
            # one representative per (object kind, field name)
            reps = {}
            for m in singles:
                k = re.sub(r'\d+', '', m[0].split('/', 1)[1].split('=')[0])
                reps.setdefault(k, m)
            rl = list(reps.values())[:110]
            pj = [(mid, name, [tuple(x) for x in parts_], False) for mid, parts_ in fsweep.pair_list(name, rl)]
            res = pmap(job_fs, pj, chunksize=8)
            for (mid, bad, n), j in zip(res, pj):
                total += n
                if bad: record(mid, bad, {'part': 'iv', 'base': name, 'parts': j[2]})
            ck.part('iv_pairs_' + name, pairs=len(pj))
            if ck.expired(): ck.add(exhaustive=False); break
    ck.add(evaluations=total, distinct_nontrivial=max(2, sum(v.get('mutants', v.get('pairs', 0)) for v in ck.parts.values())), states=total, transitions=total, traces_validated_against_impl=total,
           rule='AddressSanitizer builds of the tools; inputs: (i) every single-field catalogue mutant of corpus images (re-sealed checksum where one would hide the field), (ii) every byte of every metadata block of a 128-block image '
                'set to 0x00/0xff/^0x01/^0x80 and every pair of values of its superblock geometry fields (re-sealed checksum), (iii) the same treatments over the headers/tables of an external journal, an undo file and a qcow2 image, plus boundary values for every header and key field of the undo file with re-sealed header and key-block checksums, (iv, thorough) all pairs of per-field representatives; '
                'invocations: e2fsck -fn/-fy/-fp(/-fyD), dumpe2fs(-x -b), a 45-command read-only debugfs script(-c), tune2fs -l, resize2fs -P, e2image -r/-Q, e2freefrag, e2undo(-n/-f); '
                'oracle: no sanitizer report, no fatal signal, exit within 20 s (150 s on re-run), documented exit status; evaluations = tool runs, distinct_nontrivial = distinct mutated inputs',
           samples=['ext4csum/ino12.i_size_lo=0x0+seal :: e2fsck -fy', 'tiny/blk5+17=0xff :: e2fsck -fn', 'undo+40=0xff :: e2undo'])
    ck.cov['distinct_failure_signatures'] = len(sig)
    ck.cov['failure_signatures'] = sorted('%s (%d inputs)' % (' | '.join(k), n) for k, n in sig.items())[:40]
    ck.assumptions += ['a run that prints more than 64 MB of messages (one per block of a range that a corrupt pointer makes millions of blocks long, e.g. a triple-indirect pointer aimed at a metadata block) is cut there and counted as inconclusive: not a crash, not shown to be a hang, nothing claimed',
                       'scope: inputs within one corrupted field / one byte (thorough: two fields) of well-formed images; not arbitrary byte strings',
                       'UBSan is not an oracle here (the property is about memory safety, crashes and hangs)', 'leak reports are disabled (detect_leaks=0)']
    return ck.finish()

def replay(path):
    global T, DBG_SCRIPT, TINY, AUX
    d = json.load(open(path)); det = d['detail']
    print(json.dumps(det, indent=1)[:2000])
    T = {k: tool(k, 'asan') for k in ('e2fsck', 'dumpe2fs', 'debugfs', 'tune2fs', 'resize2fs', 'e2image', 'e2freefrag', 'e2undo', 'mke2fs')}
    fsweep.init_scratch()
    DBG_SCRIPT = os.path.join(scratch(), 'ro.dbg'); open(DBG_SCRIPT, 'w').write(dbg_script(None))
    if det.get('part') in ('i', 'iv'):
        data = fsweep.make_multi(det['base'], [tuple(x) for x in det['parts']])
        p = fsweep.worker_path('c6r')
        for label, tool_, argv, copy in invocations(p, False):
            if label != det['invocation']: continue
            open(p, 'wb').write(data)
            rc, out = run(argv, timeout=150)
            print(rc, out[-3000:])
            return 1 if classify(tool_, argv, rc, out) else 0
    return 1
