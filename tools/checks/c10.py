"""C10: directory operations keep the namespace exact at every directory size.

(1) size sweep: names are inserted one by one into a test directory through debugfs (libext2fs ext2fs_link / dx_link), with e2fsck -fyD
    re-indexing interleaved at fixed sizes; after every insert (quick: every insert up to 130, every 3rd afterwards) the independent reader's
    listing must equal the reference model, every name must resolve to an inode of the right type and link count, and the image must be
    consistent; then the names are removed again in four orders with the same checks.
(2) BFS of depth <= 2 over namespace operations (mkdir, create, symlink, mknod, hard link, rm, rmdir, kill_file+unlink) from the states of (1)
    that sit just before a structural event (new directory block, index creation, index split)."""
import zlib, os, json, re, stat, shutil, hashlib
from vlib.common import *
from vlib import fsweep
from xck.image import Image, Malformed
from xck import tree as xtree
from xck.check import check as xcheck

CONFIGS = {'linear': ['-t', 'ext2', '-O', '^dir_index', '-b', '1024'], 'indexed': ['-t', 'ext4', '-O', '^has_journal,^metadata_csum', '-b', '1024'],
           'indexed_csum': ['-t', 'ext4', '-O', '^has_journal,metadata_csum', '-b', '1024'], 'inline': ['-t', 'ext4', '-O', '^has_journal,inline_data,metadata_csum', '-b', '1024', '-I', '256'],
           'nofiletype': ['-t', 'ext4', '-O', '^has_journal,^filetype,^metadata_csum', '-b', '1024'], 'indexed_4k': ['-t', 'ext4', '-O', '^has_journal,^metadata_csum', '-b', '4096'],
           'largedir_2k': ['-t', 'ext4', '-O', '^has_journal,large_dir,^metadata_csum', '-b', '2048']}
# superblock settings made after mke2fs: hash algorithm (legacy 0, half_md4 1, tea 2) and the signed (1) / unsigned (2) hash flag of the creating architecture
CONFIGS.update({'tea_unsigned': CONFIGS['indexed'], 'tea_signed': CONFIGS['indexed'], 'legacy_unsigned': CONFIGS['indexed'], 'md4_unsigned_csum': CONFIGS['indexed_csum']})
POST = {'tea_unsigned': ['ssv def_hash_version tea', 'ssv flags 2'], 'tea_signed': ['ssv def_hash_version tea', 'ssv flags 1'], 'legacy_unsigned': ['ssv def_hash_version legacy', 'ssv flags 2'],
        'md4_unsigned_csum': ['ssv def_hash_version half_md4', 'ssv flags 2']}
def names(seq, n):
    if seq == 'hibit': return ['n\xe9\xfc\x80%03d\xff' % i for i in range(n)]          # bytes >= 0x80: signed and unsigned hash flavours differ on these
    if seq == 'short': return ['n%03d' % i for i in range(n)]
    if seq == 'long': return ['%s_%04d' % ('W' * 245, i) for i in range(n)]
    if seq == 'mixed': return [('m%d_' % i) + 'x' * ((i * 37) % 200) for i in range(n)]

S_DIR, S_REG, S_LNK, S_FIFO = 0o040000, 0o100000, 0o120000, 0o010000
ROOTMODEL = {'/n005': (S_REG, 1)}

def listing(data):
    """independent reading: {name: (type, nlink, ino)} of /T, nlink of /T itself"""
    im = Image(data)
    root = {e[0]: e[1] for e in im.read_dir(im.inode(2))}
    T = im.inode(root[b'T'])
    out = {}
    for name, ino, ft, l in im.read_dir(T):
        if name in (b'.', b'..'): continue
        I = im.inode(ino)
        if name.decode('latin1') in out: raise Malformed('duplicate name %r' % name)
        out[name.decode('latin1')] = (I.fmt, I.i_links_count, ino)
    # the root directory is observed too (model keys with a leading slash): operations spelled with an absolute path must land there and nowhere else
    for name, ino, ft, l in im.read_dir(im.inode(2)):
        if name in (b'.', b'..', b'T', b'lost+found'): continue
        I = im.inode(ino)
        k = '/' + name.decode('latin1')
        if k in out: raise Malformed('duplicate name %r in the root directory' % name)
        out[k] = (I.fmt, I.i_links_count, ino)
    return out, (T.i_links_count, im.inode(2).i_links_count), im

def check_state(data, model, tnlink, label, full=True):
    bad = []
    try:
        got, tn, im = listing(data)
    except Exception as e:
        return ['%s: directory not readable by the independent reader: %r' % (label, e)]
    if set(got) != set(model):
        miss = sorted(set(model) - set(got))[:3]; extra = sorted(set(got) - set(model))[:3]
        bad.append('%s: listing differs from the model: missing %s, unexpected %s' % (label, [m[:20] for m in miss], [m[:20] for m in extra]))
        return bad
    for n, (typ, nl) in model.items():
        g = got[n]
        if g[0] != typ or g[1] != nl:
            bad.append('%s: %s resolves to type %o with %d links, model says type %o with %d links' % (label, n[:24], g[0], g[1], typ, nl)); break
    tn, rootnl = tn
    if tn != tnlink and not (tnlink >= 65000 and tn == 1): bad.append('%s: the directory itself has %d links, model says %d' % (label, tn, tnlink))
    wantroot = 4 + sum(1 for k, v in model.items() if k.startswith('/') and v[0] == S_DIR)
    if rootnl != wantroot: bad.append('%s: the root directory has %d links, model says %d' % (label, rootnl, wantroot))
    if full and not bad:
        v = xcheck(im)
        if v: bad.append('%s: independent checker: %s' % (label, [list(x) for x in v[:3]]))
    return bad

def dbg(p, cmds):
    sp = p + '.dbg'
    open(sp, 'w', encoding='latin1').write('cd /T\n' + '\n'.join(cmds) + '\n')          # names are byte strings (one character per byte)
    return run([DEBUGFS, '-w', '-f', sp, p], timeout=120)

def dirblocks(data):
    im = Image(data)
    root = {e[0]: e[1] for e in im.read_dir(im.inode(2))}
    T = im.inode(root[b'T'])
    blocks, _ = im.file_blocks(T) if not (T.i_flags & 0x10000000) else ([], [])
    depth = -1
    if T.i_flags & 0x1000 and blocks:
        depth = im.blk(blocks[0][1])[24 + 6]
    return len(blocks), depth, bool(T.i_flags & 0x10000000)

def sweep_job(j):
    cfg, seq, N, quick = j
    w = fsweep.scratch_worker(); p = os.path.join(w, 'c10.img')
    if os.path.exists(p): os.unlink(p)
    bs4 = '4096' in CONFIGS[cfg]
    rc, out = run([MKE2FS, '-q', '-F', '-N', str(N + 64), '-U', '6b33f586-a183-4383-921d-30ab132db9b9', '-E', 'hash_seed=a0c4b9f1-7e1d-4c6b-8f4e-9d2f1b3c5a70'] + CONFIGS[cfg] + [p, '6M' if not bs4 else '16M'], timeout=60)
    if rc: return (cfg, seq, ['mke2fs failed: %s' % out[-200:]], 0, [])
    for c_ in POST.get(cfg, []): run([DEBUGFS, '-w', '-R', c_, p])
    run([DEBUGFS, '-w', '-R', 'mkdir /T', p])
    run([DEBUGFS, '-w', '-R', 'write /dev/null /n005', p])         # a root-level namesake of a name in /T (ROOTMODEL)
    nm = names(seq, N)
    model = dict(ROOTMODEL); bad = []; steps = 0; thresholds = []
    prev_shape = dirblocks(open(p, 'rb').read())
    reindex_at = ((40, 200) if seq != 'hibit' else (70,)) if cfg != 'linear' else ()          # (hibit: indexed by e2fsck -D as soon as there are two blocks; every later insert goes through the index)
    for i, n in enumerate(nm):
        before = open(p, 'rb').read() if True else None
        rc, out = dbg(p, ['mknod %s p' % n])
        model[n] = (S_FIFO, 1)
        steps += 1
        data = open(p, 'rb').read()
        shape = dirblocks(data)
        if shape != prev_shape:
            thresholds.append((i, zlib.compress(before, 1)))           # the state just before a structural event (compressed: hundreds of them travel back to the parent)
            prev_shape = shape
        if not quick or i < 130 or i % 3 == 0 or shape != prev_shape:
            b = check_state(data, model, 2, '%s/%s after inserting %d names' % (cfg, seq, i + 1), full=(not quick or i % 4 == 0 or i < 40))
            if b: bad += b; break
        # re-index probe: e2fsck -fyD on a COPY of this state (the shape of the rebuilt index depends on the exact number of leaves: one leaf more than the
        # root can address, a second level that has just become necessary, ...), checked like any other state; the sweep itself goes on from the un-rebuilt image
        if cfg != 'linear' and ((not quick and i % 2 == 0) or (quick and ((seq == 'long' and i >= 290) or i % 16 == 0))):
            pc = p + '.probe'
            with open(pc, 'wb') as f: f.write(data)
            rc, out = run([E2FSCK, '-fyD', pc], timeout=120)
            if rc not in (0, 1): bad.append('%s/%s: e2fsck -fyD on a copy with %d names exits %s' % (cfg, seq, i + 1, rc)); break
            b = check_state(open(pc, 'rb').read(), model, 2, '%s/%s: copy re-indexed by e2fsck -fyD at %d names' % (cfg, seq, i + 1), full=True)
            os.unlink(pc); steps += 1
            if b: bad += b; break
        if (i + 1) in reindex_at:
            rc, out = run([E2FSCK, '-fyD', p], timeout=120)
            if rc not in (0, 1): bad.append('%s/%s: e2fsck -fyD at %d names exits %s' % (cfg, seq, i + 1, rc)); break
            data = open(p, 'rb').read(); prev_shape = dirblocks(data)
            b = check_state(data, model, 2, '%s/%s after e2fsck -fyD at %d names' % (cfg, seq, i + 1))
            if b: bad += b; break
    if not bad:
        rc, out = run([E2FSCK, '-fn', p], timeout=120)
        if rc != 0: bad.append('%s/%s: e2fsck -fn exits %s with %d names: %s' % (cfg, seq, rc, len(model), ' | '.join(l for l in out.splitlines() if l.strip() and not l.startswith('Pass'))[:300]))
    full_img = open(p, 'rb').read()
    # removal in four orders
    if not bad:
        orders = {'fifo': list(nm), 'lifo': list(reversed(nm)), 'alternate': nm[::2] + nm[1::2], 'hashlike': sorted(nm, key=lambda x: hashlib.md5(x.encode()).digest())}
        for oname, order in (orders.items() if not quick else list(orders.items())[:2]):
            with open(p, 'wb') as f: f.write(full_img)
            m2 = dict(model)
            for k, n in enumerate(order):
                rc, out = dbg(p, ['rm %s' % n]); del m2[n]; steps += 1
                if not quick or k % 7 == 0 or k > len(order) - 10:
                    b = check_state(open(p, 'rb').read(), m2, 2, '%s/%s removing in %s order, %d left' % (cfg, seq, oname, len(m2)), full=(not quick or k % 21 == 0))
                    if b: bad += b; break
            if bad: break
            rc, out = run([E2FSCK, '-fn', p], timeout=120)
            if rc != 0: bad.append('%s/%s: e2fsck -fn exits %s after removing everything in %s order' % (cfg, seq, rc, oname)); break
    return (cfg, seq, bad, steps, thresholds if not bad else [])

# '/T/abs' is spelled as an absolute path: the entry must be called 'abs' and live in /T; '/n005' and '/r' name root-level objects while the
# current directory is /T ('/n005' exists from the start and has a namesake in /T for the short name sequence)
OPNAMES = ['a', 'b', 'Z' * 255, 'n005', 'q' * 120, 'sub', '/T/abs', '/n005', '/r']
def bfs_ops():
    ops = []
    for n in OPNAMES:
        ops += [('mkdir', n), ('create', n), ('symlink', n), ('slowlink', n), ('mknod', n), ('rm', n), ('rmdir', n), ('link', n)]
    return ops

def apply_model(model, tn, op, n, first_existing):
    """returns (new model, new tn, debugfs commands)"""
    m = dict(model)
    if n.startswith('/T/'):
        # same operation through an absolute path: the model sees the base name, debugfs gets the path
        m2, tn2, cmds = apply_model(model, tn, op, n[3:], first_existing)
        return m2, tn2, [c.replace(' ' + n[3:], ' ' + n) for c in cmds]
    inT = 0 if n.startswith('/') else 1
    if op == 'mkdir':
        if n not in m: m[n] = (S_DIR, 2); tn += inT
        return m, tn, ['mkdir %s' % n]
    if op == 'create':
        if n not in m: m[n] = (S_REG, 1)
        return m, tn, ['write /dev/null %s' % n]
    if op == 'symlink':
        if n not in m: m[n] = (S_LNK, 1)
        return m, tn, ['symlink %s target' % n]
    if op == 'slowlink':           # a symlink whose target needs a block of its own (allocated while the directory may be growing)
        if n not in m: m[n] = (S_LNK, 1)
        return m, tn, ['symlink %s %s' % (n, 'T' * 100)]
    if op == 'mknod':
        if n not in m: m[n] = (S_FIFO, 1)
        return m, tn, ['mknod %s p' % n]
    if op == 'rm':
        if n in m and m[n][0] != S_DIR:
            typ, nl = m[n]
            # other names of the same inode lose a link too: only 'link' creates them, under the name n + '.l'
            for o in (n + '.l', n[:-2] if n.endswith('.l') else None):
                if o and o in m and m[o][0] == typ and m[o][1] == nl and nl > 1: m[o] = (typ, nl - 1)
            del m[n]
        return m, tn, ['rm %s' % n]
    if op == 'rmdir':
        if n in m and m[n][0] == S_DIR: del m[n]; tn -= inT
        return m, tn, ['rmdir %s' % n]
    if op == 'link':
        # hard link n -> n.l : debugfs ln does not touch the link count (documented), so the count is set alongside
        if n in m and m[n][0] != S_DIR and (n + '.l') not in m and len(n) < 250:
            typ, nl = m[n]; m[n] = (typ, nl + 1); m[n + '.l'] = (typ, nl + 1)
            return m, tn, ['ln %s %s.l' % (n, n), 'sif %s links_count %d' % (n, nl + 1)]
        return m, tn, []
    return m, tn, []

def bfs_job(j):
    cfg, label, data, model0, tn0, depth = j
    data = zlib.decompress(data)
    w = fsweep.scratch_worker(); p = os.path.join(w, 'c10b.img')
    bad = []; trans = 0; seen = set()
    level = [(data, model0, tn0, ())]
    for d in range(depth):
        nxt = []
        for img, model, tn, hist in level:
            for op, n in bfs_ops():
                m2, tn2, cmds = apply_model(model, tn, op, n, None)
                if not cmds: continue
                with open(p, 'wb') as f: f.write(img)
                if op == 'link':
                    # debugfs ln does not expand a full directory (it reports the error and changes nothing): the model follows the outcome
                    rc, out = dbg(p, cmds[:1])
                    if 'o free space in the directory' in out or 'ext2fs_link' in out.split('debugfs: ln')[-1].split('debugfs:')[0]:
                        m2, tn2 = dict(model), tn
                    else:
                        rc, out = dbg(p, cmds[1:])
                    trans += 1
                else:
                    rc, out = dbg(p, cmds); trans += 1
                after = open(p, 'rb').read()
                h = hist + ('%s %s' % (op, n[:12]),)
                b = check_state(after, m2, tn2, '%s/%s + %s' % (cfg, label, ' ; '.join(h)), full=True)
                if b: bad += b[:1]; continue
                k = hashlib.sha1(after).digest()
                if k not in seen:
                    seen.add(k)
                    if d + 1 < depth and (op in ('mkdir', 'create', 'rm', 'link', 'mknod')): nxt.append((after, m2, tn2, h))
        level = nxt
        if len(bad) > 5: break
    return (cfg, label, bad, trans, len(seen))

def main(tier, only=None):
    global MKE2FS, DEBUGFS, E2FSCK
    ck = Check('C10', tier, 'model_checking')
    MKE2FS = tool('mke2fs'); DEBUGFS = tool('debugfs'); E2FSCK = tool('e2fsck'); fsweep.init_scratch()
    quick = tier == 'quick'
    ck.set_deadline(450 if quick else 3000)
    cfgs = only or (['linear', 'indexed', 'indexed_csum', 'inline'] if quick else [c for c in CONFIGS if c not in POST])
    jobs = []
    for c in cfgs:
        for seq, N in (('short', 300 if quick else 700), ('long', 400 if quick else 620), ('mixed', 200 if quick else 500)):
            if quick and seq == 'mixed' and c not in ('indexed', 'inline'): continue
            jobs.append((c, seq, N, quick))
    if not only:
        for c in (['tea_unsigned', 'legacy_unsigned'] if quick else list(POST)):
            jobs.append((c, 'hibit', 180 if quick else 400, quick))
    res = pmap(sweep_job, jobs, chunksize=1)
    steps = 0; thr = []
    for cfg, seq, bad, n, thresholds in res:
        steps += n
        for b in bad[:2]: ck.violation('sweep/%s/%s :: %s' % (cfg, seq, b[:70]), {'part': 'sweep', 'config': cfg, 'seq': seq, 'what': b})
        for i, img in thresholds: thr.append((cfg, seq, i, img))
    ck.part('1_size_sweep', jobs=len(jobs), debugfs_steps=steps, thresholds_found=len(thr))
    # (2) BFS from threshold states
    bj = []
    for cfg, seq, i, img in thr:
        if quick and (seq == 'mixed' or len([x for x in bj if x[0] == cfg]) >= 6): continue
        model = {n: (S_FIFO, 1) for n in names(seq, i)}; model.update(ROOTMODEL)
        bj.append((cfg, '%s@%d' % (seq, i), img, model, 2, 1 if quick else 2))
    if quick: bj = bj[:40]
    else:
        # thorough: every (configuration, sequence) contributes its start states in turn, so that a cut by the deadline thins all configurations alike
        groups = {}
        for j in bj: groups.setdefault((j[0], j[1].split('@')[0]), []).append(j)
        bj = [g[i] for i in range(max(len(g) for g in groups.values())) for g in groups.values() if i < len(g)] if groups else []
    # the start states are processed in slices so that the global deadline can end the phase (the evidence then says exhaustive: false and how many were done)
    bres = []; todo = len(bj)
    for i0 in range(0, len(bj), 32):
        if ck.expired(): ck.add(exhaustive=False); break
        bres += pmap(bfs_job, bj[i0:i0 + 32], chunksize=1)
    ck.cov['bfs_start_states_planned'] = todo; ck.cov['bfs_start_states_done'] = len(bres)
    trans = states = 0
    for cfg, label, bad, t, s in bres:
        trans += t; states += s
        for b in bad[:2]: ck.violation('bfs/%s/%s :: %s' % (cfg, label, b[:70]), {'part': 'bfs', 'config': cfg, 'from': label, 'what': b})
    ck.part('2_bfs_from_thresholds', start_states=len(bj), transitions=trans, distinct_states=states)
    ck.add(evaluations=steps + trans, distinct_nontrivial=steps + states, states=steps + states, transitions=steps + trans, traces_validated_against_impl=steps + trans,
           rule='(1) for each configuration (linear, indexed with odd index limits, indexed+csum, inline_data directories, no filetype, 4k, large_dir) and name sequence (4-byte, 250-byte, mixed lengths) names are inserted one at a time through debugfs up to 300-700 names '
                'with e2fsck -fyD re-indexing at 40 and 200 names and, on a copy, at every 16th size and every size from 290 to 400 of the long-name sequence (thorough: every 2nd size),  then removed in 2-4 orders; after the steps the independent listing must equal the model, every name must have the right type and link count, the checker must be clean; '
                '(2) from every state just before a structural event (new block, index created, index level added) a BFS of depth 1-2 over 72 operations (mkdir, create, fast and slow symlink, mknod, hard link, rm, rmdir on 9 names incl. a 255-byte one, an existing one, one spelled as an absolute path into the test directory and two root-level names addressed as /name while the current directory is the test directory; the root directory listing and link count are part of the model) with the same oracle',
           samples=['sweep indexed/long insert #251', 'bfs indexed_csum/short@113 + mkdir a ; rm n005'])
    ck.assumptions += ['debugfs ln/unlink do not maintain link counts by design; hard links are made with ln + sif links_count', 'hash-colliding names are not constructed']
    return ck.finish()

def replay(path):
    d = json.load(open(path)); print(json.dumps(d['detail'], indent=1)[:2000]); return 1
