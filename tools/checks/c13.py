"""C13: read-only invocations never modify the device.  Every image x every read-only invocation: bytes before == bytes after."""
import os, json, hashlib, subprocess, time
from vlib.common import *
from vlib import fsweep
from xck.image import Image

DBG_SCRIPT = 'ls -l /\nstat /\nstat <8>\nex /frag\nhtree /hx\nlogdump -a\ndump_extents /f12\nea_list /bs\nicheck 40 100\nncheck 12 13\nbmap /sparse 268\nlsdel\nffb 1\nffi\nimap <12>\nstats\ndx_hash -h tea abc\ndirsearch / one\n'

def invocations(p, bs, backup, out):
    T = TOOLS_
    inv = [('e2fsck -n', [T['e2fsck'], '-n', p]), ('e2fsck -fn', [T['e2fsck'], '-fn', p]),
           ('e2fsck -fn -b', [T['e2fsck'], '-fn', '-b', str(backup), '-B', str(bs), p]),
           ('debugfs script', [T['debugfs'], '-f', SCRIPT_, p]), ('debugfs -c', [T['debugfs'], '-c', '-R', 'ls -l /', p]),
           ('dumpe2fs', [T['dumpe2fs'], p]), ('dumpe2fs -h', [T['dumpe2fs'], '-h', p]), ('dumpe2fs -x', [T['dumpe2fs'], '-x', p]),
           ('tune2fs -l', [T['tune2fs'], '-l', p]), ('resize2fs -P', [T['resize2fs'], '-P', p]),
           ('e2image -r', [T['e2image'], '-r', p, out]), ('e2image -Q', [T['e2image'], '-Q', p, out]), ('e2image', [T['e2image'], p, out]),
           ('e2freefrag', [T['e2freefrag'], p]), ('mke2fs -n', [T['mke2fs'], '-n', '-F', p]),
           ('dumpe2fs -b', [T['dumpe2fs'], '-b', p]),
           # every option spelling of the read-only tools that changes how the filesystem is opened
           ('debugfs -n', [T['debugfs'], '-n', '-R', 'stats', p]), ('debugfs -s -b', [T['debugfs'], '-s', str(backup), '-b', str(bs), '-R', 'stats', p]),
           ('debugfs -n -s -b', [T['debugfs'], '-n', '-s', str(backup), '-b', str(bs), '-R', 'ls -l /', p]), ('debugfs -c -n', [T['debugfs'], '-c', '-n', '-R', 'stat /', p]),
           ('debugfs modifying request without -w', [T['debugfs'], '-n', '-R', 'mkdir /c13x', p]),
           ('dumpe2fs -o superblock', [T['dumpe2fs'], '-o', 'superblock=%d' % backup, '-o', 'blocksize=%d' % bs, p]), ('dumpe2fs -f -g', [T['dumpe2fs'], '-f', '-g', p]), ('dumpe2fs -m', [T['dumpe2fs'], '-m', p]),
           ('e2fsck -nfvtt', [T['e2fsck'], '-n', '-f', '-v', '-t', '-t', p]), ('e2fsck -n -b', [T['e2fsck'], '-n', '-b', str(backup), '-B', str(bs), p]),
           ('e2fsck -n -E unshare_blocks', [T['e2fsck'], '-n', '-E', 'unshare_blocks', p]), ('e2fsck -n -E unshare_blocks -b', [T['e2fsck'], '-n', '-E', 'unshare_blocks', '-b', str(backup), '-B', str(bs), p]),
           ('e2fsck -n -E bmap2extent,discard', [T['e2fsck'], '-fn', '-E', 'bmap2extent,discard', p]),
           ('e2fsck -n -z', [T['e2fsck'], '-n', '-z', out, p]), ('debugfs -z without -w', [T['debugfs'], '-z', out, '-R', 'stats', p]),      # read-only runs through the undo I/O manager
           ('resize2fs -P -f', [T['resize2fs'], '-P', '-f', p]), ('e2freefrag -c', [T['e2freefrag'], '-c', '4', p]),
           ('e2image -ra', [T['e2image'], '-ra', p, out]), ('e2image -Qa', [T['e2image'], '-Qa', p, out]),
           ('mke2fs -n ext4', [T['mke2fs'], '-n', '-F', '-t', 'ext4', '-O', 'quota', '-d', '/nonexistent', p])]
    # the names under which tune2fs and dumpe2fs are also installed (they look at argv[0]): e2label <dev> prints the label, e2mmpstatus <dev> the MMP state
    for alias, real in (('e2label', 'tune2fs'), ('e2mmpstatus', 'dumpe2fs')):
        ln = os.path.join(scratch(), alias)
        try:
            if not os.path.lexists(ln): os.symlink(T[real], ln)
        except OSError: pass
        if os.path.lexists(ln): inv.append((alias, [ln, p]))
    return inv

def pipeline(job):
    mid, name, parts, full = job
    data = fsweep.make_multi(name, parts)
    p = fsweep.worker_path()
    out = p + '.out'
    with open(p, 'wb') as f: f.write(data)
    try:
        img = Image(fsweep.base_data(name))
        bs = img.bs; backup = img.group_first_block(1) if img.groups > 1 else 8193
    except Exception:
        bs, backup = 1024, 8193
    bad = []; n = 0
    st0 = os.stat(p); sig0 = (st0.st_mtime_ns, st0.st_size)
    for label, argv in invocations(p, bs, backup, out):
        if not full and label in ('e2image', 'e2image -Q', 'dumpe2fs -b', 'e2freefrag', 'debugfs -c', 'debugfs -c -n', 'dumpe2fs -o superblock', 'dumpe2fs -f -g', 'dumpe2fs -m', 'e2fsck -nfvtt', 'e2fsck -n -b',
                                  'resize2fs -P -f', 'e2fsck -n -E bmap2extent,discard', 'e2freefrag -c', 'e2image -ra', 'e2image -Qa', 'mke2fs -n ext4', 'debugfs modifying request without -w', 'e2label', 'e2mmpstatus'):
            continue
        if os.path.exists(out): os.unlink(out)
        _t = time.time()
        rc, txt = run(argv, timeout=6)
        if os.environ.get('VERIF_C13_PROFILE') and time.time() - _t > 1.0: log('[slow %.1fs] %s %s rc=%s' % (time.time() - _t, mid, label, rc))
        n += 1
        st = os.stat(p)
        if (st.st_mtime_ns, st.st_size) != sig0:       # any successful write/truncate moves mtime (tmpfs): only then pay for a full comparison
            with open(p, 'rb') as f: now = f.read()
            diffs = [i for i in range(0, min(len(now), len(data)), 512) if now[i:i + 512] != data[i:i + 512]][:6]
            bad.append((label, rc, len(now) - len(data), diffs if diffs else 'written with identical bytes'))
            with open(p, 'wb') as f: f.write(data)
            st0 = os.stat(p); sig0 = (st0.st_mtime_ns, st0.st_size)
    with open(p, 'rb') as f: now = f.read()
    if now != data and not bad:
        bad.append(('(some invocation, mtime unchanged)', 0, len(now) - len(data), []))
    if os.path.exists(out): os.unlink(out)
    return (mid, n, bad)


# ---- part B: e2undo -n (the dry run the property names) --------------------------------------------------------------------------------------------
import struct
def undo_variants(ud, quick):
    """the recorded undo file, and boundary values for every header and key field with re-sealed header / key-block checksums (so that the change is seen by
    the code behind the checksum gate), plus the same without re-sealing for the state word"""
    from xck.crc import crc32c as _c
    out = [('as-recorded', ud)]
    ubs = struct.unpack_from('<I', ud, 32)[0] or 1024
    koff = struct.unpack_from('<Q', ud, 24)[0] * ubs
    fields = [('hdr.num_keys', 8, 8), ('hdr.super_offset', 16, 8), ('hdr.key_offset', 24, 8), ('hdr.block_size', 32, 4), ('hdr.fs_block_size', 36, 4), ('hdr.sb_crc', 40, 4),
              ('hdr.state', 44, 4), ('hdr.fs_offset', 64, 8)]
    nk = min(2 if quick else 4, struct.unpack_from('<Q', ud, 8)[0])
    for k in range(nk):
        fields += [('key%d.fsblk' % k, koff + 16 + 16 * k, 8), ('key%d.blk_crc' % k, koff + 16 + 16 * k + 8, 4), ('key%d.size' % k, koff + 16 + 16 * k + 12, 4)]
    for name, o, z in fields:
        if o + z > len(ud): continue
        old = int.from_bytes(ud[o:o + z], 'little'); top = (1 << (8 * z)) - 1
        vals = [0, 1, top, (old + 1) & top, (old - 1) & top, old ^ 1, old ^ 2] + ([] if quick else [top - 1022, 1 << (8 * z - 1), 513 * ubs, ubs - 1])
        for v in sorted(set(vals) - {old}):
            b = bytearray(ud); b[o:o + z] = v.to_bytes(z, 'little')
            if o >= koff and koff + ubs <= len(b):
                b[koff + 4:koff + 8] = b'\0\0\0\0'
                struct.pack_into('<I', b, koff + 4, _c(0xffffffff, bytes(b[koff:koff + ubs])))
            struct.pack_into('<I', b, 508, _c(0xffffffff, bytes(b[:508])))
            out.append(('%s=0x%x+seal' % (name, v), bytes(b)))
    return out

UNDO_INV = [('e2undo -n', ['-n']), ('e2undo -n -f', ['-n', '-f']), ('e2undo -n -v', ['-n', '-v']), ('e2undo -h', ['-h']), ('e2undo -n -z', ['-n', '-z', 'U2'])]
def undo_job(j):
    cid, target, ud = j
    p = fsweep.worker_path('c13u'); u = p + '.undo'; u2 = p + '.undo2'
    bad = []; n = 0
    for label, opts in UNDO_INV:
        with open(p, 'wb') as f: f.write(target)
        with open(u, 'wb') as f: f.write(ud)
        if os.path.exists(u2): os.unlink(u2)
        rc, txt = run([TOOLS_['e2undo']] + [u2 if o == 'U2' else o for o in opts] + [u, p], timeout=20); n += 1
        with open(p, 'rb') as f: now = f.read()
        with open(u, 'rb') as f: unow = f.read()
        if now != target:
            diffs = [i for i in range(0, min(len(now), len(target)), 512) if now[i:i + 512] != target[i:i + 512]][:6]
            bad.append((label, rc, 'the filesystem image changed (size %+d, first changed sectors at %s)' % (len(now) - len(target), diffs)))
        if unow != ud:
            bad.append((label, rc, 'the undo file itself changed'))
    for f in (p, u, u2):
        if os.path.exists(f): os.unlink(f)
    return (cid, n, bad)

def undo_cases(quick):
    """(case id, target image bytes, undo file bytes): writers x {finished, unfinished} x undo-file variants x {image as left by the writer, image from before the write}"""
    sc = scratch(); cases = []
    writers = [('tune2fs', lambda p, u: [TOOLS_['tune2fs'], '-z', u, '-O', 'dir_index', '-L', 'x', p]),
               ('debugfs', lambda p, u: [TOOLS_['debugfs'], '-w', '-z', u, '-R', 'set_super_value mnt_count 7', p]),
               ('e2fsck', lambda p, u: [TOOLS_['e2fsck'], '-fy', '-z', u, p])]
    bases = ['ext2', 'ext4csum'] if quick else ['ext2', 'ext4csum', 'bigalloc', 'bs4k', 'quota', 'inline']
    for base in bases:
        for wname, mk in writers:
            if quick and base != 'ext2' and wname != 'debugfs': continue
            for unfinished in (False, True):
                p = os.path.join(sc, 'c13u.img'); u = p + '.undo'
                before = fsweep.base_data(base)
                if wname == 'e2fsck':       # give e2fsck something to repair: a wrong free-blocks count in the first group descriptor
                    b = bytearray(before); img = Image(before); gb, go = img.gd_location(0); o = gb * img.bs + go + 12; b[o] ^= 1; before = bytes(b)
                open(p, 'wb').write(before)
                if os.path.exists(u): os.unlink(u)
                env = dict(os.environ); env.update(tool_env())
                if unfinished: env['UNDO_IO_SIMULATE_UNFINISHED'] = '1'
                subprocess.run(mk(p, u), env=env, stdout=subprocess.DEVNULL, stderr=subprocess.DEVNULL, timeout=120)
                if not os.path.exists(u): continue
                after = open(p, 'rb').read(); ud = open(u, 'rb').read()
                os.unlink(u)
                tag = '%s/%s/%s' % (base, wname, 'unfinished' if unfinished else 'finished')
                for vname, vd in undo_variants(ud, quick):
                    cases.append(('undo/%s/%s/after' % (tag, vname), after, vd))
                    if vname == 'as-recorded' or not quick:
                        cases.append(('undo/%s/%s/before' % (tag, vname), before, vd))
    return cases

# ---- part C: filesystem with an EXTERNAL journal device: both files are targets of a read-only invocation ---------------------------------------------------
def extj_job(j):
    cid, jfields, fsfields, label, argvt = j
    import struct
    w = fsweep.scratch_worker(); p = os.path.join(w, 'c13x.img'); jp = os.path.join(w, 'c13x.jdev'); out = os.path.join(w, 'c13x.out')
    d = bytearray(fsweep.base_data('extj')); jd = bytearray(fsweep.base_data('extjdev'))
    for off, fmt, val in jfields: struct.pack_into(fmt, jd, off, val)
    for off, fmt, val in fsfields: struct.pack_into(fmt, d, off, val)
    with open(p, 'wb') as f: f.write(d)
    with open(jp, 'wb') as f: f.write(jd)
    argv = [a.replace('{img}', p).replace('{jdev}', jp).replace('{out}', out) for a in argvt]
    rc, txt = run(argv, timeout=20)
    bad = []
    if open(jp, 'rb').read() != bytes(jd): bad.append((label, rc, 0, 'the external journal device was modified'))
    if open(p, 'rb').read() != bytes(d): bad.append((label, rc, 0, 'the filesystem image was modified'))
    for f_ in (out,):
        if os.path.exists(f_): os.unlink(f_)
    return (cid, 1, bad)

def extj_jobs():
    T = TOOLS_
    JSB = 2048          # journal superblock of the 1 KiB-block journal device
    jvars = [('clean', []), ('s_errno', [(JSB + 0x20, '>i', -5)]), ('s_start', [(JSB + 0x1C, '>I', 1)]), ('s_errno+s_start', [(JSB + 0x20, '>i', -30), (JSB + 0x1C, '>I', 3)]),
             ('bad-magic', [(JSB, '>I', 0x12345678)]), ('nr_users0', [(JSB + 0x40, '>I', 0)])]
    fvars = [('', []), ('needs_recovery', [(1024 + 0x60, '<I', None)])]
    import struct
    inc = struct.unpack_from('<I', fsweep.base_data('extj'), 1024 + 0x60)[0]
    inv = [('e2fsck -n -j', [T['e2fsck'], '-n', '-j', '{jdev}', '{img}']), ('e2fsck -fn -j', [T['e2fsck'], '-fn', '-j', '{jdev}', '{img}']), ('e2fsck -n (journal not named)', [T['e2fsck'], '-n', '{img}']),
           ('dumpe2fs jdev', [T['dumpe2fs'], '{jdev}']), ('dumpe2fs fs', [T['dumpe2fs'], '{img}']), ('debugfs logdump -f', [T['debugfs'], '-R', 'logdump -f {jdev}', '{img}']),
           ('debugfs -R stats jdev', [T['debugfs'], '-R', 'stats', '{jdev}']), ('tune2fs -l jdev', [T['tune2fs'], '-l', '{jdev}']), ('e2image -r', [T['e2image'], '-r', '{img}', '{out}'])]
    jobs = []
    for jn, jf in jvars:
        for fn, ff in fvars:
            ff2 = [(o, f, (inc | 4) if v is None else v) for o, f, v in ff]
            for label, argv in inv:
                jobs.append(('extj/%s%s :: %s' % (jn, '+' + fn if fn else '', label), jf, ff2, label, argv))
    return jobs

def main(tier, only=None):
    global TOOLS_, SCRIPT_
    ck = Check('C13', tier, 'fault_enumeration')
    TOOLS_ = {k: tool(k) for k in ('e2fsck', 'debugfs', 'dumpe2fs', 'tune2fs', 'resize2fs', 'e2image', 'e2freefrag', 'mke2fs', 'e2undo')}
    fsweep.init_scratch()
    SCRIPT_ = os.path.join(scratch(), 'ro.dbg'); open(SCRIPT_, 'w').write(DBG_SCRIPT)
    quick = tier == 'quick'
    ck.set_deadline(240 if quick else 2700)
    jobs = [('%s/k0' % n, n, [], True) for n in fsweep.CORPUS + ['needsrec']]
    bases = only or (['needsrec', 'ext4csum', 'mmp'] if quick else fsweep.CORPUS + ['needsrec'])
    # fields that steer open-time / journal / orphan / MMP / quota behaviour; thorough: the whole catalogue
    steer = lambda f: f.obj in ('sb', 'jsb', 'mmp', 'gd0', 'gd1') or f.obj in ('ino7', 'ino8', 'ino3', 'ino4')
    for name in bases:
        for mid, off, size, v, seal in fsweep.mutant_list(name, sealed=((True,) if quick and name != 'needsrec' else (False, True)), fields_filter=(steer if quick else None)):
            jobs.append((mid, name, [(off, size, v, seal)], False))
    # in slices, so that the global deadline can end the sweep (the evidence then says exhaustive: false and how many images were done)
    res = []
    for i0 in range(0, len(jobs), 16000):
        if ck.expired(): ck.add(exhaustive=False); break
        res += pmap(pipeline, jobs[i0:i0 + 16000], chunksize=8)
    ck.cov['images_planned'] = len(jobs); ck.cov['images_done'] = len(res)
    runs = 0
    for (mid, n, bad), job in zip(res, jobs):
        runs += n
        for label, rc, dlen, diffs in bad:
            ck.violation('%s :: %s' % (mid, label), {'base': job[1], 'parts': job[2], 'invocation': label, 'exit': rc, 'size_change': dlen, 'first_changed_sector_offsets': diffs})
    # part C: external journal pair
    xj = extj_jobs() if not only else []
    for (cid, n, bad) in pmap(extj_job, xj, chunksize=2):
        runs += n
        for label, rc, dlen, what in bad:
            ck.violation(cid, {'part': 'C', 'invocation': label, 'exit': rc, 'what': what})
    ck.part('C_external_journal', invocations=len(xj), rule='corpus pair extj/extjdev x journal superblock states (clean, s_errno set, s_start set, both, bad magic, no users) x needs_recovery on/off x 9 read-only invocations naming the journal device or the filesystem; both files must stay byte-identical')
    # part B: e2undo -n
    ucases = [] if only else undo_cases(quick)
    globals()['UCASES'] = ucases
    ures = pmap(undo_job, ucases, chunksize=4)
    uruns = 0
    for (cid, n, bad) in ures:
        uruns += n
        for label, rc, what in bad:
            ck.violation('%s :: %s' % (cid, label), {'part': 'undo', 'case': cid, 'invocation': label, 'exit': rc, 'what': what})
    runs += uruns
    ck.part('e2undo_dry_run', cases=len(ucases), runs=uruns)
    jobs = jobs + [(c[0],) for c in ucases]
    ck.add(evaluations=runs, distinct_nontrivial=len(jobs), states=len(jobs), transitions=runs, traces_validated_against_impl=runs,
           rule='image = every corpus image (incl. one with an unrecovered 3-transaction journal) plus every single-field catalogue mutant (quick: fields of the superblock, '
                'descriptors, journal superblock, MMP block and reserved inodes; thorough: all); each image x 11-17 read-only invocations of e2fsck/debugfs/dumpe2fs/tune2fs/'
                'resize2fs/e2image/e2freefrag/mke2fs -n/e2label; oracle: the image file is byte-identical afterwards; distinct = distinct images.  e2undo: undo files recorded by tune2fs / debugfs / e2fsck -z, '
                'finished and unfinished (UNDO_IO_SIMULATE_UNFINISHED), as recorded and with every header / key field set to boundary values under re-sealed checksums, against the image as the writer '
                'left it and as it was before; invocations e2undo -n, -n -f, -n -v, -h, -n -z; oracle: image and undo file byte-identical afterwards',
           samples=[jobs[0][0], jobs[len(jobs) // 2][0], jobs[-1][0], 'invocations: ' + ', '.join(l for l, a in invocations('IMG', 1024, 257, 'OUT'))])
    ck.assumptions += ['writes are detected through the file\'s mtime/size after every invocation (any successful write counts, even of identical bytes) plus a full byte comparison per image']
    return ck.finish()

def replay(path):
    global TOOLS_, SCRIPT_
    d = json.load(open(path)); det = d['detail']
    TOOLS_ = {k: tool(k) for k in ('e2fsck', 'debugfs', 'dumpe2fs', 'tune2fs', 'resize2fs', 'e2image', 'e2freefrag', 'mke2fs', 'e2undo')}
    fsweep.init_scratch()
    SCRIPT_ = os.path.join(scratch(), 'ro.dbg'); open(SCRIPT_, 'w').write(DBG_SCRIPT)
    if det.get('part') == 'undo':
        quick_first = [c for q in (True, False) for c in undo_cases(q) if c[0] == det['case']][:1]
        if not quick_first: print('case not found'); return 2
        r = undo_job(quick_first[0]); print(r); print('replay verdict:', 'VIOLATION reproduced' if r[2] else 'no violation')
        return 1 if r[2] else 0
    r = pipeline((d['case'], det['base'], [tuple(x) for x in det['parts']], True))
    print(r); print('replay verdict:', 'VIOLATION reproduced' if r[2] else 'no violation')
    return 1 if r[2] else 0
