"""C13: read-only invocations never modify the device.  Every image x every read-only invocation: bytes before == bytes after."""
import os, json, hashlib
from vlib.common import *
from vlib import fsweep
from xck.image import Image

DBG_SCRIPT = 'ls -l /\nstat /\nstat <8>\nex /frag\nhtree /hx\nlogdump -a\ndump_extents /f12\nea_list /bs\nicheck 40 100\nncheck 12 13\nbmap /sparse 268\nlsdel\nffb 1\nffi\nimap <12>\nstats\ndx_hash -h tea abc\ndirsearch / one\n'

def invocations(p, bs, backup, out):
    T = TOOLS_
    inv = [('e2fsck -n', [T['e2fsck'], '-n', p]), ('e2fsck -fn', [T['e2fsck'], '-fn', p]),
           ('e2fsck -fn -b', [T['e2fsck'], '-fn', '-b', str(backup), '-B', str(bs), p]),
           ('debugfs script', [T['debugfs'], '-f', SCRIPT_, p]), ('debugfs -c', [T['debugfs'], '-c', '-R', 'ls -l /', p]),
           ('dumpe2fs', [T['dumpe2fs'], p]), ('dumpe2fs -h', [T['dumpe2fs'], '-h', p]), ('dumpe2fs -x', [T['dumpe2fs'], '-x', p]),
           ('tune2fs -l', [T['tune2fs'], '-l', p]), ('resize2fs -P', [T['resize2fs'], '-P', p]),
           ('e2image -r', [T['e2image'], '-r', p, out]), ('e2image -Q', [T['e2image'], '-Q', p, out]), ('e2image', [T['e2image'], p, out]),
           ('e2freefrag', [T['e2freefrag'], p]), ('mke2fs -n', [T['mke2fs'], '-n', '-F', p]),
           ('dumpe2fs -b', [T['dumpe2fs'], '-b', p])]
    return inv

def pipeline(job):
    mid, name, parts, full = job
    data = fsweep.make_multi(name, parts)
    p = fsweep.worker_path()
    out = p + '.out'
    with open(p, 'wb') as f: f.write(data)
    try:
        img = Image(fsweep.base_data(name))
        bs = img.bs; backup = img.group_first_block(1) if img.groups > 1 else 8193
    except Exception:
        bs, backup = 1024, 8193
    bad = []; n = 0
    st0 = os.stat(p); sig0 = (st0.st_mtime_ns, st0.st_size)
    for label, argv in invocations(p, bs, backup, out):
        if not full and label in ('e2image', 'e2image -Q', 'dumpe2fs -b', 'e2freefrag', 'debugfs -c'):
            continue
        if os.path.exists(out): os.unlink(out)
        rc, txt = run(argv, timeout=6)
        n += 1
        st = os.stat(p)
        if (st.st_mtime_ns, st.st_size) != sig0:       # any successful write/truncate moves mtime (tmpfs): only then pay for a full comparison
            with open(p, 'rb') as f: now = f.read()
            diffs = [i for i in range(0, min(len(now), len(data)), 512) if now[i:i + 512] != data[i:i + 512]][:6]
            bad.append((label, rc, len(now) - len(data), diffs if diffs else 'written with identical bytes'))
            with open(p, 'wb') as f: f.write(data)
            st0 = os.stat(p); sig0 = (st0.st_mtime_ns, st0.st_size)
    with open(p, 'rb') as f: now = f.read()
    if now != data and not bad:
        bad.append(('(some invocation, mtime unchanged)', 0, len(now) - len(data), []))
    if os.path.exists(out): os.unlink(out)
    return (mid, n, bad)

def main(tier, only=None):
    global TOOLS_, SCRIPT_
    ck = Check('C13', tier, 'fault_enumeration')
    TOOLS_ = {k: tool(k) for k in ('e2fsck', 'debugfs', 'dumpe2fs', 'tune2fs', 'resize2fs', 'e2image', 'e2freefrag', 'mke2fs')}
    fsweep.init_scratch()
    SCRIPT_ = os.path.join(scratch(), 'ro.dbg'); open(SCRIPT_, 'w').write(DBG_SCRIPT)
    quick = tier == 'quick'
    ck.set_deadline(240 if quick else 2700)
    jobs = [('%s/k0' % n, n, [], True) for n in fsweep.CORPUS + ['needsrec']]
    bases = only or (['needsrec', 'ext4csum', 'mmp'] if quick else fsweep.CORPUS + ['needsrec'])
    # fields that steer open-time / journal / orphan / MMP / quota behaviour; thorough: the whole catalogue
    steer = lambda f: f.obj in ('sb', 'jsb', 'mmp', 'gd0', 'gd1') or f.obj in ('ino7', 'ino8', 'ino3', 'ino4')
    for name in bases:
        for mid, off, size, v, seal in fsweep.mutant_list(name, sealed=((True,) if quick and name != 'needsrec' else (False, True)), fields_filter=(steer if quick else None)):
            jobs.append((mid, name, [(off, size, v, seal)], False))
    res = pmap(pipeline, jobs, chunksize=8)
    runs = 0
    for (mid, n, bad), job in zip(res, jobs):
        runs += n
        for label, rc, dlen, diffs in bad:
            ck.violation('%s :: %s' % (mid, label), {'base': job[1], 'parts': job[2], 'invocation': label, 'exit': rc, 'size_change': dlen, 'first_changed_sector_offsets': diffs})
    ck.add(evaluations=runs, distinct_nontrivial=len(jobs), states=len(jobs), transitions=runs, traces_validated_against_impl=runs,
           rule='image = every corpus image (incl. one with an unrecovered 3-transaction journal) plus every single-field catalogue mutant (quick: fields of the superblock, '
                'descriptors, journal superblock, MMP block and reserved inodes; thorough: all); each image x 11-17 read-only invocations of e2fsck/debugfs/dumpe2fs/tune2fs/'
                'resize2fs/e2image/e2freefrag/mke2fs -n/e2label; oracle: the image file is byte-identical afterwards; distinct = distinct images',
           samples=[jobs[0][0], jobs[len(jobs) // 2][0], jobs[-1][0], 'invocations: ' + ', '.join(l for l, a in invocations('IMG', 1024, 257, 'OUT'))])
    ck.assumptions += ['writes are detected through the file\'s mtime/size after every invocation (any successful write counts, even of identical bytes) plus a full byte comparison per image']
    return ck.finish()

def replay(path):
    global TOOLS_, SCRIPT_
    d = json.load(open(path)); det = d['detail']
    TOOLS_ = {k: tool(k) for k in ('e2fsck', 'debugfs', 'dumpe2fs', 'tune2fs', 'resize2fs', 'e2image', 'e2freefrag', 'mke2fs')}
    fsweep.init_scratch()
    SCRIPT_ = os.path.join(scratch(), 'ro.dbg'); open(SCRIPT_, 'w').write(DBG_SCRIPT)
    r = pipeline((d['case'], det['base'], [tuple(x) for x in det['parts']], True))
    print(r); print('replay verdict:', 'VIOLATION reproduced' if r[2] else 'no violation')
    return 1 if r[2] else 0
