"""C09: file data written through libext2fs reads back exactly -- explicit-state BFS over file-operation histories (engines/fileopx.c)
on the real library, byte-array reference model, read-back of both files after every operation; every distinct final state is also
given to e2fsck -fn and the independent checker (i_blocks, bitmaps)."""
import os, json, subprocess, shutil, itertools, time
from vlib.common import *
from vlib import fsweep
from xck.check import check as xcheck

def build_harness():
    S = build('asan')
    out = os.path.join(BUILD, 'bin/fileopx')
    os.makedirs(os.path.dirname(out), exist_ok=True)
    cmd = ['gcc', '-O1', '-g', '-fsanitize=address', '-fno-omit-frame-pointer', '-w', '-I%s/lib' % S, '-o', out, os.path.join(VERIF, 'engines/fileopx.c'),
           '%s/lib/ext2fs/libext2fs.a' % S, '%s/lib/et/libcom_err.a' % S, '-lpthread']
    r = subprocess.run(cmd, stdout=subprocess.PIPE, stderr=subprocess.STDOUT, text=True)
    if r.returncode: log(r.stdout); raise SystemExit('C09 harness does not compile against the tree')
    return out

CONFIGS = {'blockmap': (['-t', 'ext2', '-b', '1024', '-N', '16'], 1024), 'extent': (['-t', 'ext4', '-O', '^has_journal,^metadata_csum', '-b', '1024', '-N', '16'], 1024),
           'extent_csum': (['-t', 'ext4', '-O', '^has_journal,metadata_csum,64bit', '-b', '1024', '-N', '16'], 1024),
           'bigalloc': (['-t', 'ext4', '-O', '^has_journal,bigalloc', '-C', '4096', '-b', '1024', '-N', '16'], 1024),
           'inline': (['-t', 'ext4', '-O', '^has_journal,inline_data', '-b', '1024', '-N', '16', '-I', '256'], 1024),
           'extent_4k': (['-t', 'ext4', '-O', '^has_journal', '-b', '4096', '-N', '16'], 4096),
           'extent_deep': (['-t', 'ext4', '-O', '^has_journal,metadata_csum', '-b', '1024', '-N', '16'], 1024)}

def ops_for(bs, level):
    offs = [0, 1, bs - 1, bs, 12 * bs - 1, 12 * bs, (12 + bs // 4) * bs, 5 * bs + 7]
    lens = [1, bs - 1, bs, bs + 1, 3 * bs]
    ops = []
    for f in 'AB':
        for o in offs:
            for l in lens:
                ops.append('w:%s:%d:%d' % (f, o, l))
        for s in (0, 1, bs, 12 * bs + 1, 40):
            ops.append('t:%s:%d' % (f, s))
        pb = [0, 1, 11, 12, 13, 11 + bs // 4, 12 + bs // 4, 13 + bs // 4, -1]
        for i, a in enumerate(pb[:-1]):
            for b in pb[i:]:
                ops.append('p:%s:%d:%d' % (f, a, b))
        for fl in (0, 1, 3, 4, 8):       # 0 = keep size; ZERO_BLOCKS 1, FORCE_INIT 2 (only together with ZERO_BLOCKS: alone it exposes whatever the blocks held, by design), FORCE_UNINIT 4, INIT_BEYOND_EOF 8
            for st, ln in ((0, 2), (1, 1), (11, 3), (12 + bs // 4 - 1, 2), (3, 12)):
                ops.append('a:%s:%d:%d:%d' % (f, fl, st, ln))
        ops.append('a:%s:9:0:3' % f)
        for (o1, l1, o2, l2) in ((0, bs, bs, bs), (bs - 1, 2, 0, 1), (5, 10, 3 * bs + 5, 10), (12 * bs - 1, 2, 12 * bs + bs, 1), (0, 3 * bs, bs, 1), (bs + 1, 1, 1, 1)):
            ops.append('v:%s:%d:%d:%d:%d' % (f, o1, l1, o2, l2))
    ops.append('r')
    if level == 'small':
        # third level: file A only, every second operation, but every set_size (shrink/regrow sequences need them)
        ops = [o for i, o in enumerate(o for o in ops if o.split(':')[1:2] == ['A']) if i % 2 == 0 or o[0] == 't'] + ['r']
    return ops

def mini_ops(bs):
    """focused alphabet on the first six blocks of file A: small writes inside each block, single-block and range punches, single-block and range
    preallocation, one truncate, reopen -- deep sequences of these build every arrangement of holes, written and unwritten extents (incl. adjacent
    unwritten extents that are physically contiguous) and then write into / convert / merge them"""
    ops = ['w:A:%d:9' % (b * bs + 7) for b in range(6)] + ['w:A:0:%d' % (6 * bs)]
    ops += ['p:A:%d:%d' % (b, b) for b in range(1, 5)] + ['p:A:1:4']
    ops += ['a:A:0:%d:1' % b for b in range(1, 5)] + ['a:A:0:0:6', 'a:A:0:2:2', 'a:A:8:1:3']
    ops += ['t:A:%d' % (3 * bs), 'r']
    return ops

DEEP_PREFIX = 'g:A:380:2'
def deep_ops(bs):
    """on a file of 380 single-block extents (extent tree of depth 2 at 1 KiB blocks): at EVERY extent position one operation that removes the extent, removes
    it together with its successor, fills the hole behind it (merging three extents), writes into the hole, preallocates the hole, or truncates there"""
    ops = []
    for k in range(380):
        b = 2 * k
        ops += ['p:A:%d:%d' % (b, b), 'p:A:%d:%d' % (b, b + 2), 'w:A:%d:%d' % ((b + 1) * bs, bs), 'w:A:%d:9' % ((b + 1) * bs + 5), 'a:A:0:%d:1' % (b + 1)]
        if k % 4 == 0: ops.append('t:A:%d' % (b * bs + 1))
    return ops

import re
def inline_class(cfg, msg):
    # (the other inline-data defects that used to be classified here were repaired: known_findings.json, fixed: entries)
    if cfg.startswith('inline') and re.search(r'^after p:\w:0:-1: file \w has size 0, model says \d+', msg): return 'inline-punch-to-end-truncates'
    return None

def enospc_class(cfg, errs, msg):
    """A fallocate that runs out of space on a nearly full filesystem returns EXT2_ET_BLOCK_ALLOC_FAIL but keeps what it did so far: clusters already
    claimed for an extent that could not be inserted stay marked and charged to i_blocks, and initialised extents it created past EOF stay (the caller is
    told nothing about how far it got).  Only exactly these e2fsck complaints, and only when the history has such a failed fallocate, are classified."""
    if not cfg.endswith('_full'): return None
    fails = [e.split('=')[0] for e in (errs or '').split() if e.startswith('a:') and e.endswith('=2133571400')]
    if not fails or not msg.startswith('e2fsck -fn exits 4 after the history: '): return None
    init_fail = any(int(f.split(':')[2]) & 10 for f in fails)
    kinds = set()
    for part in msg.split(': ', 1)[1].split(' | '):
        part = part.strip()
        m = re.match(r'^Inode \d+, i_blocks is (\d+), should be (\d+)\.\s+Fix\? no$', part)
        if m and int(m.group(1)) > int(m.group(2)): kinds.add('leak'); continue
        if re.match(r'^Block bitmap differences:( +-(\(\d+--\d+\)|\d+))+$', part): kinds.add('leak'); continue
        m = re.match(r'^Inode \d+, i_size is (\d+), should be (\d+)\.\s+Fix\? no$', part)
        if m and init_fail and int(m.group(1)) < int(m.group(2)): kinds.add('past-eof'); continue
        m = re.match(r'^Inode \d+, end of extent exceeds allowed value$', part)
        if m and init_fail: kinds.add('past-eof'); continue
        m = re.match(r'^\(logical block (\d+), physical block \d+, len \d+\)$', part)
        if m and init_fail and any(int(f.split(':')[3]) <= int(m.group(1)) < int(f.split(':')[3]) + int(f.split(':')[4]) for f in fails if int(f.split(':')[2]) & 10): continue
        if part in ('Fix? no', 'Clear? no') or re.match(r'^Free blocks count wrong', part): continue
        return None
    return 'fallocate-enospc-' + '+'.join(sorted(kinds)) if kinds else None

def run_batch(j):
    cfg, hists = j
    w = fsweep.scratch_worker()
    sf = os.path.join(w, 'fileopx.img')
    p = subprocess.run([EXE, BASES[cfg], sf], input='\n'.join(hists) + '\n', stdout=subprocess.PIPE, stderr=subprocess.PIPE, text=True,
                       env=dict({'ASAN_OPTIONS': 'detect_leaks=0:halt_on_error=0:exitcode=99', 'E2FSPROGS_FAKE_TIME': '1700000000', 'TZ': 'GMT0'}, **({} if cfg.endswith('_full') else {'FILEOPX_STRICT': '1'})), timeout=3600)
    out = []
    for l in p.stdout.splitlines():
        try: out.append(json.loads(l))
        except Exception: pass
    if len(out) != len(hists):
        # the harness died (sanitizer abort / crash) on the first history that has no result
        h = hists[len(out)]
        out.append({'h': h, 'hash': 'CRASH', 'bad': 'harness process died (exit %s): %s' % (p.returncode, p.stderr[-600:].replace('"', "'")), 'errs': '', 'degraded': 1})
        rest = hists[len(out):]
        if rest: out += run_batch((cfg, rest))
    return out

def check_state(j):
    cfg, hist = j
    w = fsweep.scratch_worker()
    sf = os.path.join(w, 'fileopx_k.img')
    hp = subprocess.run([EXE, BASES[cfg], sf], input=hist + '\n', stdout=subprocess.PIPE, stderr=subprocess.PIPE, text=True,
                   env={'ASAN_OPTIONS': 'detect_leaks=0:halt_on_error=0', 'E2FSPROGS_FAKE_TIME': '1700000000', 'TZ': 'GMT0'}, timeout=600)
    try: errs = json.loads(hp.stdout.splitlines()[0]).get('errs', '')
    except Exception: errs = ''
    rc, out = run([E2FSCK, '-fn', sf], timeout=60)
    if rc != 0:
        msg = ' | '.join(l for l in out.splitlines() if l.strip() and not l.startswith('Pass ') and not l.startswith('e2fsck ') and '.img:' not in l)
        msg = 'e2fsck -fn exits %s after the history: %s' % (rc, msg[:400])
        return (cfg, hist, msg, enospc_class(cfg, errs, msg))
    try:
        v = xcheck(open(sf, 'rb').read())
    except Exception as e:
        v = [('S', 'unreadable', repr(e))]
    if v: return (cfg, hist, 'independent checker: %s' % [list(x) for x in v[:3]], None)
    return (cfg, hist, None, None)

def main(tier, only=None):
    global EXE, BASES, E2FSCK
    ck = Check('C09', tier, 'model_checking')
    EXE = build_harness(); E2FSCK = tool('e2fsck'); fsweep.init_scratch()
    quick = tier == 'quick'
    ck.set_deadline(420 if quick else 3000)
    sc = scratch(); BASES = {}
    cfgs = only or (['blockmap', 'extent', 'bigalloc', 'inline', 'extent_deep'] if quick else list(CONFIGS))
    for c in list(cfgs):
        for full in ((False,) if (quick and c != 'extent') or c == 'extent_deep' else (False, True)):
            name = c + ('_full' if full else '')
            p = os.path.join(sc, name + '.img')
            size = 400 if not full else 60
            if CONFIGS[c][1] == 4096: size *= 4
            if c == 'extent_deep': size = 3000
            rc, out = run([tool('mke2fs'), '-q', '-F', '-U', '6b33f586-a183-4383-921d-30ab132db9b9'] + CONFIGS[c][0] + [p, '%dk' % size], timeout=60)
            if rc: log('C09: cannot build base %s: %s' % (name, out[-200:])); continue
            os.truncate(p, size * 1024)     # mke2fs leaves a sparse tail unwritten; e2fsck would report a device smaller than the filesystem
            run([tool('debugfs'), '-w', '-R', 'write /dev/null A', p]); run([tool('debugfs'), '-w', '-R', 'write /dev/null B', p])
            BASES[name] = p
    total_tr = 0; total_states = 0; per = {}; maxdepth = 0
    t_end = ck.t0 + (420 if quick else 3000); nleft = len(BASES)
    for name in BASES:
        # every configuration gets an equal share of the remaining time
        ck.deadline = min(t_end, time.time() + max(20.0, (t_end - time.time()) / max(1, nleft))); nleft -= 1
        bs = CONFIGS[name.replace('_full', '')][1]
        if name == 'extent_deep':
            # one operation at every extent position of a file whose extent tree has depth 2 (the prefix builds it through the same library calls)
            hists = [DEEP_PREFIX] + [DEEP_PREFIX + ' ' + o for o in deep_ops(bs)]
            if not quick: hists += [DEEP_PREFIX + ' ' + o + ' ' + o2 for o in deep_ops(bs)[::7] for o2 in deep_ops(bs)[3::11]]
            chunks = [hists[i:i + 40] for i in range(0, len(hists), 40)]
            res = pmap(run_batch, [(name, c) for c in chunks], chunksize=1)
            seen = {}; trans = 0
            for batch in res:
                for r in batch:
                    trans += 1
                    if r['bad']:
                        ck.violation('%s :: %s' % (name, r['h']), {'config': name, 'history': r['h'], 'what': r['bad'], 'errors_returned': r['errs'], 'root_cause_class': None}); continue
                    seen.setdefault(r['hash'], r['h'])
            st = sorted(seen.values())
            if quick: st = st[::2]
            for cfg, h, msg, cls in pmap(check_state, [(name, h) for h in st], chunksize=8):
                if msg: ck.violation('%s :: %s :: consistency' % (name, h), {'config': name, 'history': h, 'what': msg, 'root_cause_class': cls})
            per[name] = {'states': len(seen), 'transitions': trans, 'depth_completed': 1 if quick else 2, 'states_checked_by_e2fsck_and_xck': len(st), 'prefix': DEEP_PREFIX}
            total_tr += trans; total_states += len(seen)
            continue
        depth = 3 if (not quick or name in ('extent', 'blockmap', 'bigalloc')) else 2
        seen = {}; level = ['']
        trans = 0; dmax = 0
        for d in range(1, depth + 1):
            if ck.expired(): ck.add(exhaustive=False); break
            ops = ops_for(bs, 'all' if d <= 2 and not (quick and d == 2 and name not in ('extent', 'blockmap')) else 'small')
            if quick and d == 3:
                # quick: the third level is only expanded from states whose history ends in a shrinking operation on file A (set_size / punch)
                level = [h for h in level if h.split()[-1][:3] in ('t:A', 'p:A')]
            hists = [(h + ' ' + o).strip() for h in level for o in ops]
            chunks = [hists[i:i + 400] for i in range(0, len(hists), 400)]
            # the level is processed in slices so that the global deadline can end it (the evidence then says exhaustive: false and which depth was completed)
            res = []; cut = False
            for i0 in range(0, len(chunks), 128):
                if ck.expired(): cut = True; break
                res += pmap(run_batch, [(name, c) for c in chunks[i0:i0 + 128]], chunksize=1)
            if cut: ck.add(exhaustive=False)
            nxt = []
            for batch in res:
                for r in batch:
                    trans += 1
                    if r['bad']:
                        ck.violation('%s :: %s' % (name, r['h']), {'config': name, 'history': r['h'], 'what': r['bad'], 'errors_returned': r['errs'], 'root_cause_class': inline_class(name, r['bad'])})
                        continue
                    if r['hash'] not in seen:
                        seen[r['hash']] = r['h']
                        if not r['degraded']: nxt.append(r['h'])
                        dmax = d
            level = nxt
            if cut: dmax = d - 1
            if not level or cut: break
        # second search on extent-mapped configurations: the focused six-block alphabet, deeper (quick 4, thorough 5 levels), same de-duplication and oracle
        if name in ('extent', 'bigalloc', 'extent_csum', 'extent_4k') and not ck.expired():
            mops = mini_ops(bs); level = ['']; mdepth = 4 if quick else 5; mseen = {}; md = 0
            for d in range(1, mdepth + 1):
                if ck.expired(): ck.add(exhaustive=False); break
                hists = [(h + ' ' + o).strip() for h in level for o in mops]
                chunks = [hists[i:i + 400] for i in range(0, len(hists), 400)]
                res = []; cut = False
                for i0 in range(0, len(chunks), 128):
                    if ck.expired(): cut = True; break
                    res += pmap(run_batch, [(name, c) for c in chunks[i0:i0 + 128]], chunksize=1)
                if cut: ck.add(exhaustive=False)
                nxt = []
                for batch in res:
                    for r in batch:
                        trans += 1
                        if r['bad']:
                            ck.violation('%s :: %s' % (name, r['h']), {'config': name, 'history': r['h'], 'what': r['bad'], 'errors_returned': r['errs'], 'root_cause_class': inline_class(name, r['bad'])})
                            continue
                        if r['hash'] not in seen and r['hash'] not in mseen:
                            mseen[r['hash']] = r['h']
                            if not r['degraded']: nxt.append(r['h'])
                            md = d
                level = nxt
                if not level or cut: break
            per.setdefault(name + '/mini', {}).update({'states': len(mseen), 'depth_completed': md, 'alphabet': len(mops)})
            seen.update(mseen)
        # consistency of every distinct state (thorough) / of a deterministic third of them (quick)
        st = sorted(seen.values())
        if quick: st = st[::3]
        if len(st) > 20000: st = st[::(len(st) + 19999) // 20000]          # bounded number of full consistency checks per configuration (deterministic stride)
        cres = pmap(check_state, [(name, h) for h in st], chunksize=8)
        for cfg, h, msg, cls in cres:
            if msg: ck.violation('%s :: %s :: consistency' % (name, h), {'config': name, 'history': h, 'what': msg, 'root_cause_class': cls or inline_class(name, msg)})
        per[name] = {'states': len(seen), 'transitions': trans, 'depth_completed': dmax, 'states_checked_by_e2fsck_and_xck': len(st)}
        total_tr += trans; total_states += len(seen); maxdepth = max(maxdepth, dmax)
    ck.add(evaluations=total_tr, distinct_nontrivial=total_states, states=total_states, transitions=total_tr, traces_validated_against_impl=total_tr,
           rule='BFS over histories of file operations on two files (pwrite at offsets around block / indirect-level / cluster boundaries with 5 lengths, two writes + read through one handle, set_size, punch over block ranges crossing 12 and the '
                'first indirect boundary, fallocate with each flag, fs close+reopen; on a file of 380 single-block extents (extent tree of depth 2) one punch / range punch / hole fill / partial write / preallocation / truncate at EVERY extent position; and on extent-mapped configurations a second, deeper search (4-5 levels) over a focused alphabet of 22 operations on the first six blocks: small in-block writes, single-block/range punch and preallocation, truncate, reopen) on block-mapped, extent, extent+csum, bigalloc, inline_data and 4k filesystems (empty and nearly full); states de-duplicated on the final image hash; '
                'oracle after every operation: both files read back through fresh handles (chunk 4096 and 1000) equal the byte-array model (last write wins, holes and punched ranges are zero, exact size); every distinct final image: e2fsck -fn = 0 and independent checker clean',
           samples=['extent :: w:A:1023:1025 p:A:0:1', 'blockmap :: w:A:12288:3072 p:A:11:13 w:B:0:1'])
    ck.cov['configs'] = per
    ck.assumptions += ['after an operation that returns an error other than "no space" the affected file is no longer compared (its state is unspecified); the other file and consistency still are',
                       'depth bound %d; the handle-level alphabet is represented by the two-writes-one-handle operation' % (2 if quick else 3)]
    return ck.finish()

def replay(path):
    global EXE, BASES, E2FSCK
    d = json.load(open(path))['detail']
    EXE = build_harness(); E2FSCK = tool('e2fsck'); fsweep.init_scratch()
    c = d['config']; base = c.replace('_full', '')
    p = os.path.join(scratch(), c + '.img')
    size = (400 if not c.endswith('_full') else 60) * (4 if CONFIGS[base][1] == 4096 else 1)
    if c == 'extent_deep': size = 3000
    run([tool('mke2fs'), '-q', '-F', '-U', '6b33f586-a183-4383-921d-30ab132db9b9'] + CONFIGS[base][0] + [p, '%dk' % size])
    os.truncate(p, size * 1024)
    run([tool('debugfs'), '-w', '-R', 'write /dev/null A', p]); run([tool('debugfs'), '-w', '-R', 'write /dev/null B', p])
    BASES = {c: p}
    r = run_batch((c, [d['history']]))
    print(r)
    if r and r[0]['bad']: return 1
    cfg, h, msg, cls = check_state((c, d['history']))
    if msg: print(msg, '[class: %s]' % cls)
    return 1 if msg else 0
