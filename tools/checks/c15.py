"""C15: extended attributes read back exactly as set -- explicit-state BFS over set/replace/remove histories on the real libext2fs
(engines/xattrx.c), map reference model checked after every operation; every distinct final image is given to e2fsck -fn and to the
independent checker (entry order, hashes, reference counts, ea_inode back references, block/inode accounting)."""
import os, json, subprocess, re, time
from vlib.common import *
from vlib import fsweep
from xck.check import check as xcheck

def build_harness():
    S = build('asan')
    out = os.path.join(BUILD, 'bin/xattrx')
    os.makedirs(os.path.dirname(out), exist_ok=True)
    cmd = ['gcc', '-O1', '-g', '-fsanitize=address', '-fno-omit-frame-pointer', '-w', '-I%s/lib' % S, '-o', out, os.path.join(VERIF, 'engines/xattrx.c'),
           '%s/lib/ext2fs/libext2fs.a' % S, '%s/lib/et/libcom_err.a' % S, '-lpthread']
    r = subprocess.run(cmd, stdout=subprocess.PIPE, stderr=subprocess.STDOUT, text=True)
    if r.returncode: log(r.stdout); raise SystemExit('C15 harness does not compile against the tree')
    return out

CONFIGS = {'i128': ['-t', 'ext4', '-O', '^has_journal,^metadata_csum', '-I', '128', '-b', '1024'], 'i256': ['-t', 'ext4', '-O', '^has_journal,^metadata_csum', '-I', '256', '-b', '1024'],
           'i256_csum': ['-t', 'ext4', '-O', '^has_journal,metadata_csum', '-I', '256', '-b', '1024'], 'i256_eainode': ['-t', 'ext4', '-O', '^has_journal,ea_inode,metadata_csum', '-I', '256', '-b', '1024'],
           'i1024': ['-t', 'ext4', '-O', '^has_journal', '-I', '1024', '-b', '1024'], 'inline': ['-t', 'ext4', '-O', '^has_journal,inline_data', '-I', '256', '-b', '1024'],
           'i256_4k_eainode': ['-t', 'ext4', '-O', '^has_journal,ea_inode', '-I', '256', '-b', '4096'], 'ext2_128': ['-t', 'ext2', '-I', '128', '-b', '1024']}
LENS = {'i128': [0, 1, 4, 5, 40, 700, 960, 964, 968, 972, 1100], 'ext2_128': [0, 1, 4, 5, 40, 700, 960, 964, 968, 972, 1100],
        'i256': [0, 1, 4, 5, 60, 68, 72, 76, 80, 700, 968, 1100], 'i256_csum': [0, 1, 4, 5, 60, 68, 72, 76, 80, 700, 968, 1100], 'i256_eainode': [0, 1, 5, 68, 72, 76, 80, 700, 968, 1100, 5000, 65536, 65537],
        'i1024': [0, 1, 5, 60, 800, 836, 840, 844, 848, 968, 1100], 'inline': [0, 1, 5, 20, 28, 32, 36, 60, 700, 968], 'i256_4k_eainode': [0, 5, 72, 76, 1450, 2600, 4000, 4040, 4096, 9000]}

def ops_for(cfg, level):
    ops = []
    lens = LENS[cfg]
    for x in 'PDI':
        for k in range(7):
            if level == 'small' and (x != 'P' or k in (3, 6)): continue
            for l in (lens if k != 4 else [28]):
                if level == 'small' and l in lens[1:3]: continue
                ops.append('s:%s:%d:%d' % (x, k, l))
            ops.append('d:%s:%d' % (x, k))
        if level != 'small' or x == 'P':
            ops.append('m:%s:0:%d:5:%d' % (x, lens[-2], lens[-3])); ops.append('m:%s:1:%d:0:%d' % (x, lens[4], lens[-2]))
    ops.append('r')
    return ops

def share_hists(cfg):
    """histories in which inode D (and I) come to share P's attribute block (refcount 2 / 3) and then one of the three is changed: the others must keep their view"""
    lens = LENS[cfg]
    pre = ['s:P:0:40 s:P:5:%d' % lens[5], 's:P:0:%d' % lens[5], 's:P:0:5 s:P:2:40 s:P:6:1']
    out = []
    for p0 in pre:
        for sh in ('h:D', 'h:D h:I'):
            for x in 'PDI':
                for op in ['s:%s:0:%d' % (x, l) for l in (0, 41, lens[5], lens[-1])] + ['s:%s:5:7' % x, 'd:%s:0' % x, 'd:%s:5' % x, 's:%s:1:60' % x]:
                    out.append('%s %s %s' % (p0, sh, op)); out.append('%s %s %s r' % (p0, sh, op))
                    out.append('%s %s %s d:P:0 d:D:0' % (p0, sh, op))
    return out

def run_batch(j):
    cfg, hists = j
    w = fsweep.scratch_worker()
    sf = os.path.join(w, 'xattrx.img')
    p = subprocess.run([EXE, BASES[cfg], sf], input='\n'.join(hists) + '\n', stdout=subprocess.PIPE, stderr=subprocess.PIPE, text=True,
                       env={'ASAN_OPTIONS': 'detect_leaks=0:halt_on_error=0:exitcode=99', 'E2FSPROGS_FAKE_TIME': '1700000000', 'TZ': 'GMT0'}, timeout=3600)
    out = []
    for l in p.stdout.splitlines():
        try: out.append(json.loads(l))
        except Exception: pass
    if len(out) != len(hists):
        h = hists[len(out)]
        out.append({'h': h, 'hash': 'CRASH', 'bad': 'harness process died (exit %s): %s' % (p.returncode, p.stderr[-600:].replace('"', "'")), 'errs': '', 'degraded': 1})
        rest = hists[len(out):]
        if rest: out += run_batch((cfg, rest))
    return out

def check_state(j):
    cfg, hist = j
    w = fsweep.scratch_worker()
    sf = os.path.join(w, 'xattrx_k.img')
    subprocess.run([EXE, BASES[cfg], sf], input=hist + '\n', stdout=subprocess.PIPE, stderr=subprocess.PIPE, text=True,
                   env={'ASAN_OPTIONS': 'detect_leaks=0:halt_on_error=0', 'E2FSPROGS_FAKE_TIME': '1700000000', 'TZ': 'GMT0'}, timeout=600)
    rc, out = run([E2FSCK, '-fn', sf], timeout=60)
    if rc != 0:
        msg = ' | '.join(l for l in out.splitlines() if l.strip() and not l.startswith('Pass ') and not l.startswith('e2fsck ') and '.img:' not in l)
        return (cfg, hist, 'e2fsck -fn exits %s after the history: %s' % (rc, msg[:400]))
    try:
        v = xcheck(open(sf, 'rb').read())
    except Exception as e:
        v = [('S', 'unreadable', repr(e))]
    if v: return (cfg, hist, 'independent checker: %s' % [list(x) for x in v[:3]])
    return (cfg, hist, None)

def main(tier, only=None):
    global EXE, BASES, E2FSCK
    ck = Check('C15', tier, 'model_checking')
    EXE = build_harness(); E2FSCK = tool('e2fsck'); fsweep.init_scratch()
    quick = tier == 'quick'
    ck.set_deadline(420 if quick else 3000)
    sc = scratch(); BASES = {}
    cfgs = only or (['i128', 'i256_csum', 'i256_eainode', 'inline', 'i256_4k_eainode'] if quick else list(CONFIGS))
    small = os.path.join(sc, 'small'); open(small, 'wb').write(b'inline-payload')
    for c in cfgs:
        p = os.path.join(sc, c + '.img')
        rc, out = run([tool('mke2fs'), '-q', '-F', '-N', '32', '-U', '6b33f586-a183-4383-921d-30ab132db9b9'] + CONFIGS[c] + [p, '600k' if '4096' not in CONFIGS[c] else '2400k'], timeout=60)
        if rc: log('C15: cannot build base %s: %s' % (c, out[-200:])); continue
        run([tool('debugfs'), '-w', '-R', 'write /dev/null P', p]); run([tool('debugfs'), '-w', '-R', 'mkdir D', p]); run([tool('debugfs'), '-w', '-R', 'write %s I' % small, p])
        BASES[c] = p
    total_tr = total_states = 0; per = {}
    t_end = ck.t0 + (420 if quick else 3000); nleft = len(BASES)
    for name in BASES:
        # every configuration gets an equal share of the remaining time
        ck.deadline = min(t_end, time.time() + max(20.0, (t_end - time.time()) / max(1, nleft))); nleft -= 1
        depth = 2 if quick else 3
        seen = {}; level = ['']; trans = 0; dmax = 0
        for d in range(1, depth + 1):
            if ck.expired(): ck.add(exhaustive=False); break
            ops = ops_for(name, 'all' if d == 1 or (d == 2 and not quick) else 'small')
            hists = [(h + ' ' + o).strip() for h in level for o in ops]
            chunks = [hists[i:i + 300] for i in range(0, len(hists), 300)]
            # the level is processed in slices so that the global deadline can end it (the evidence then says exhaustive: false and which depth was completed)
            res = []; cut = False
            for i0 in range(0, len(chunks), 128):
                if ck.expired(): cut = True; break
                res += pmap(run_batch, [(name, c) for c in chunks[i0:i0 + 128]], chunksize=1)
            if cut: ck.add(exhaustive=False)
            nxt = []
            for batch in res:
                for r in batch:
                    trans += 1
                    if r['bad']:
                        ck.violation('%s :: %s' % (name, r['h']), {'config': name, 'history': r['h'], 'what': r['bad'], 'errors_returned': r['errs']})
                        continue
                    if r['hash'] not in seen:
                        seen[r['hash']] = r['h']
                        if not r['degraded']: nxt.append(r['h'])
                        dmax = d
            level = nxt
            if cut: dmax = d - 1
            if not level or cut: break
        # shared attribute blocks (128-byte inodes: every attribute lives in the external block)
        if name in ('i128', 'ext2_128'):
            sh = share_hists(name)
            for batch in pmap(run_batch, [(name, sh[i:i + 60]) for i in range(0, len(sh), 60)], chunksize=1):
                for r in batch:
                    trans += 1
                    if r['bad']:
                        ck.violation('%s :: %s' % (name, r['h']), {'config': name, 'history': r['h'], 'what': r['bad'], 'errors_returned': r['errs']}); continue
                    if r['hash'] not in seen: seen[r['hash'] + 'S'] = r['h']
        st = sorted(seen.values())
        if quick: st = st[::2] + [h for h in st[1::2] if ' h:' in h]
        if len(st) > 20000: st = st[::(len(st) + 19999) // 20000]          # bounded number of full consistency checks per configuration (deterministic stride)
        cres = pmap(check_state, [(name, h) for h in st], chunksize=8)
        for cfg, h, msg in cres:
            cls = None
            if msg and 'eainode' in name and re.fullmatch(r'e2fsck -fn exits 4 after the history: (Inode \d+, i_blocks is \d+, should be \d+\.  Fix\? no( \| )?)+', msg):
                cls = 'ea-inode-blocks-not-charged-to-owner'
            if msg: ck.violation('%s :: %s :: consistency' % (name, h), {'config': name, 'history': h, 'what': msg, 'root_cause_class': cls})
        per[name] = {'states': len(seen), 'transitions': trans, 'depth_completed': dmax, 'states_checked_by_e2fsck_and_xck': len(st)}
        total_tr += trans; total_states += len(seen)
    ck.add(evaluations=total_tr, distinct_nontrivial=total_states, states=total_states, transitions=total_tr, traces_validated_against_impl=total_tr,
           rule='BFS over histories of xattr operations on a regular file, a directory and a small (inline-data) file: set of 7 names (user.a, a 250-byte user name, trusted, security, a POSIX ACL, user.b, user.cc) x value lengths chosen around the in-inode and '
                'plus histories in which two or three 128-byte inodes share one attribute block (refcount 2/3) before one of them is changed; in-block capacity of the configuration and beyond one block (ea_inode), remove, two sets through one handle, filesystem reopen; inode sizes 128/256/1024, ea_inode, metadata_csum, inline_data, 1k and 4k blocks; states de-duplicated on the image hash; '
                'oracle after every operation: ext2fs_xattrs_iterate and ext2fs_xattr_get on all three inodes equal the model map; every distinct final image: e2fsck -fn = 0 and independent checker clean (entry order, hashes, refcounts, ea_inode references, bitmaps)',
           samples=['i256_eainode :: s:P:0:5000 s:P:0:68', 'i128 :: s:P:1:700 d:P:1'])
    ck.cov['configs'] = per
    ck.assumptions += ['a set/remove that returns an error leaves the model unchanged; when the write-out at handle close fails the inode is no longer compared']
    return ck.finish()

def replay(path):
    global EXE, BASES, E2FSCK
    d = json.load(open(path))['detail']
    EXE = build_harness(); E2FSCK = tool('e2fsck'); fsweep.init_scratch()
    c = d['config']; p = os.path.join(scratch(), c + '.img')
    small = os.path.join(scratch(), 'small'); open(small, 'wb').write(b'inline-payload')
    run([tool('mke2fs'), '-q', '-F', '-N', '32', '-U', '6b33f586-a183-4383-921d-30ab132db9b9'] + CONFIGS[c] + [p, '600k' if '4096' not in CONFIGS[c] else '2400k'])
    run([tool('debugfs'), '-w', '-R', 'write /dev/null P', p]); run([tool('debugfs'), '-w', '-R', 'mkdir D', p]); run([tool('debugfs'), '-w', '-R', 'write %s I' % small, p])
    BASES = {c: p}
    r = run_batch((c, [d['history']]))
    print(r)
    return 1 if r and r[0]['bad'] else 0
