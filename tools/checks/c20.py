"""C20: backup superblocks/descriptors are exactly where the format prescribes, current, and usable by e2fsck -b after
mke2fs / resize2fs / tune2fs / repairing e2fsck."""
import os, json, struct, re
from vlib.common import *
from vlib import fsweep
from xck.image import Image, Malformed
from xck import tree as xtree
from xck.check import check as xcheck
from xck.crc import crc32c

def backup_set_on_disk(data, im):
    """groups whose first block carries a plausible superblock copy for this filesystem"""
    found = []
    for g in range(1, im.groups):
        off = im.group_first_block(g) * im.bs
        sb = data[off:off + 1024]
        if len(sb) < 1024: continue
        if struct.unpack_from('<H', sb, 0x38)[0] != 0xEF53: continue
        if sb[0x68:0x78] != im.uuid: continue
        # a stale copy left behind in a block that has since been freed (e.g. sparse_super2 backup moved by resize2fs) is free space, not a backup
        bm = im.block_bitmap(g)
        if bm is not None and not (bm[0] & 1): continue
        if bm is None and not im.bg_has_super(g): continue      # BLOCK_UNINIT group: every block not prescribed by the format is free
        found.append(g)
    return found

def check_backups(data, label):
    """returns list of problems with the backup set of image bytes `data`"""
    bad = []
    try:
        im = Image(data)
    except Exception as e:
        return ['image unreadable: %r' % e], None
    want = im.backup_groups()
    have = backup_set_on_disk(data, im)
    if want != have:
        bad.append('%s: backup superblocks found in groups %s, format prescribes %s' % (label, have, want))
    for g in want:
        off = im.group_first_block(g) * im.bs
        sb = data[off:off + 1024]
        if len(sb) < 1024 or struct.unpack_from('<H', sb, 0x38)[0] != 0xEF53: continue
        if struct.unpack_from('<H', sb, 0x5A)[0] != (g & 0xffff): bad.append('%s: backup in group %d has s_block_group_nr %d' % (label, g, struct.unpack_from('<H', sb, 0x5A)[0]))
        for name, o, fmt in (('s_blocks_count_lo', 4, '<I'), ('s_inodes_count', 0, '<I'), ('s_feature_compat', 0x5C, '<I'), ('s_feature_incompat', 0x60, '<I'),
                             ('s_feature_ro_compat', 0x64, '<I'), ('s_blocks_per_group', 0x20, '<I'), ('s_inodes_per_group', 0x28, '<I'), ('s_log_block_size', 0x18, '<I')):
            a, b = struct.unpack_from(fmt, sb, o)[0], struct.unpack_from(fmt, im.sbraw, o)[0]
            if name == 's_feature_incompat': a &= ~4; b &= ~4      # needs_recovery is a primary-only state bit
            if name == 's_feature_ro_compat': a &= ~0x10000; b &= ~0x10000     # orphan_present likewise
            if a != b: bad.append('%s: backup in group %d: %s is 0x%x, primary has 0x%x' % (label, g, name, a, b))
        if im.has_csum and struct.unpack_from('<I', sb, 0x3FC)[0] != crc32c(0xffffffff, sb[:0x3FC]):
            bad.append('%s: backup superblock in group %d has a bad checksum' % (label, g))
    return bad, im

def recover_from(data, im, g, t0):
    """destroy the primary superblock and primary descriptors, then e2fsck -b <backup of group g>"""
    p = fsweep.worker_path('c20r')
    d = bytearray(data)
    first = im.sb_block(0)
    ngd = im.gdt_blocks if not (im.incompat & 0x10) else min(im.sb.s_first_meta_bg, im.gdt_blocks)
    d[1024:2048] = b'\0' * 1024
    for b in range(first + 1, first + 1 + ngd):
        d[b * im.bs:(b + 1) * im.bs] = b'\0' * im.bs
    with open(p, 'wb') as f: f.write(d)
    loc = im.group_first_block(g)
    rc, out = run([E2FSCK, '-fy', '-b', str(loc), '-B', str(im.bs), p], timeout=120)
    if rc not in (0, 1):
        return 'e2fsck -fy -b %d -B %d exits %s: %s' % (loc, im.bs, rc, out[-300:])
    rc2, out2 = run([E2FSCK, '-fn', p], timeout=60)
    if rc2 != 0:
        return 'after recovery from the backup in group %d e2fsck -fn exits %s: %s' % (g, rc2, out2[-300:])
    after = open(p, 'rb').read()
    try:
        dd = xtree.diff(t0, xtree.tree(Image(after)), ignore=())
    except Exception as e:
        dd = ['unreadable: %r' % e]
    dd = [x for x in dd if 'lost+found' not in x]
    if dd:
        return 'files differ after recovery from the backup in group %d: %s' % (g, dd[:4])
    # a usable, current backup restores the same geometry: no group's bitmaps or inode table may have been "relocated"
    ia = Image(after)
    if ia.groups != im.groups:
        return 'group count changed from %d to %d after recovery from the backup in group %d' % (im.groups, ia.groups, g)
    for k in range(im.groups):
        a, b = im.gd[k], ia.gd[k]
        if (a.block_bitmap, a.inode_bitmap, a.inode_table) != (b.block_bitmap, b.inode_bitmap, b.inode_table):
            return 'after recovery from the backup in group %d the metadata of group %d moved: bitmaps/table at %s, originally %s' % (
                g, k, (b.block_bitmap, b.inode_bitmap, b.inode_table), (a.block_bitmap, a.inode_bitmap, a.inode_table))
    return None

def job(j):
    cid, mkargs, size, steps = j
    p = fsweep.worker_path('c20')
    if os.path.exists(p): os.unlink(p)
    rc, out = run([MKE2FS, '-q', '-F', '-U', '6b33f586-a183-4383-921d-30ab132db9b9', '-d', ROOT] + mkargs + [p, str(size)], timeout=120)
    if rc != 0:
        return (cid, 'skip', ['mke2fs refused'], 0)
    bad = []; n = 0
    stages = [('mke2fs', None)] + steps
    for label, argv in stages:
        if label == 'PLAIN':
            data = open(p, 'rb').read(); im = Image(data); t0 = xtree.tree(im)
            d = bytearray(data); d[1024:2048] = b'\0' * 1024
            first = im.sb_block(0)
            for b in range(first + 1, first + 1 + im.gdt_blocks): d[b * im.bs:(b + 1) * im.bs] = b'\0' * im.bs
            with open(p, 'wb') as f: f.write(d)
            rc, out = run([E2FSCK, '-fy', p], timeout=120); n += 1
            rc2, out2 = run([E2FSCK, '-fn', p], timeout=120)
            if rc not in (0, 1) or rc2 != 0:
                bad.append('plain e2fsck -fy with destroyed primary superblock/descriptors: exit %s, then -fn exit %s: %s' % (rc, rc2, (out + out2)[-300:]))
            else:
                dd = [x for x in xtree.diff(t0, xtree.tree(Image(open(p, 'rb').read()))) if 'lost+found' not in x]
                if dd: bad.append('files differ after plain e2fsck recovery: %s' % dd[:4])
            continue
        if argv is not None:
            argv = [a.replace('{img}', p) for a in argv]
            rc, out = run(argv, timeout=120)
            if rc not in (0, 1):
                continue        # the tool refused / failed: nothing to check for this transition
            if 'tune2fs' in argv[0] and 'Please run e2fsck' in out and 'NOFSCK' not in label:
                run([E2FSCK, '-fyD', p], timeout=120)
            if label.startswith('SETUP'): continue          # a preparation step (e.g. leaving a transaction in the journal): nothing is checked in this state
        data = open(p, 'rb').read()
        b, im = check_backups(data, label)
        bad += b; n += 1
        if im is None: break
        try:
            t0 = xtree.tree(im)
        except Exception as e:
            bad.append('%s: tree unreadable %r' % (label, e)); break
        for g in im.backup_groups():
            r = recover_from(data, im, g, t0); n += 1
            if r: bad.append('%s: %s' % (label, r))
    return (cid, 'bad' if bad else 'ok', bad, n)

def main(tier, only=None):
    global MKE2FS, E2FSCK, ROOT
    ck = Check('C20', tier, 'model_checking')
    MKE2FS = tool('mke2fs'); E2FSCK = tool('e2fsck'); R = tool('resize2fs'); T = tool('tune2fs'); fsweep.init_scratch()
    quick = tier == 'quick'
    ROOT = os.path.join(scratch(), 'root'); os.makedirs(ROOT + '/d')
    for i in range(4): open(ROOT + '/d/f%d' % i, 'wb').write(bytes((i * 7 + k) & 0xff for k in range(900 * (i + 1))))
    os.symlink('f0', ROOT + '/d/l')
    layouts = [('sparse', ['-t', 'ext4', '-O', '^has_journal,^resize_inode']), ('nosparse', ['-t', 'ext2', '-O', '^sparse_super,^resize_inode']),
               ('ss2_2', ['-t', 'ext4', '-O', '^has_journal,sparse_super2,^resize_inode']), ('ss2_1', ['-t', 'ext4', '-O', '^has_journal,sparse_super2,^resize_inode', '-E', 'num_backup_sb=1']),
               ('ss2_0', ['-t', 'ext4', '-O', '^has_journal,sparse_super2,^resize_inode', '-E', 'num_backup_sb=0']),
               ('metabg', ['-t', 'ext4', '-O', '^has_journal,meta_bg,^resize_inode']), ('metabg64', ['-t', 'ext4', '-O', '^has_journal,meta_bg,64bit,metadata_csum,^resize_inode']),
               ('metabg_ss2', ['-t', 'ext4', '-O', '^has_journal,meta_bg,sparse_super2,^resize_inode']), ('noflex', ['-t', 'ext4', '-O', '^has_journal,^flex_bg,^resize_inode']),
               ('64bit_csum', ['-t', 'ext4', '-O', '^has_journal,64bit,metadata_csum,^resize_inode']), ('resize_inode', ['-t', 'ext4', '-O', '^has_journal,resize_inode'])]
    jobs = []
    for bs, g in ((1024, 256), (2048, 512), (4096, 1024)) if not quick else ((1024, 256),):
        for name, args in layouts:
            for groups in (range(1, 51) if not quick else list(range(1, 13)) + [17, 18, 24, 25, 26, 27, 28, 33, 34, 49, 50]):
                size = groups * g + (1 if bs == 1024 else 0)
                steps = []
                if groups in (3, 8, 26) or not quick and groups % 5 == 0:
                    steps = [('resize2fs shrink inside the last group', [R, '-f', '{img}', str(size - g // 3)]), ('resize2fs grow inside the last group', [R, '-f', '{img}', str(size - g // 7)]),
                             ('resize2fs +2 groups', [R, '-f', '{img}', str(size + 2 * g)]), ('tune2fs -O ^dir_index', [T, '-O', '^dir_index', '{img}']),
                             ('tune2fs -U', [T, '-f', '-U', '11111111-2222-3333-4444-555555555555', '{img}']),
                             ('resize2fs to 28 groups', [R, '-f', '{img}', str(28 * g + 1)]), ('e2fsck -fyD', [E2FSCK, '-fyD', '{img}'])]
                jobs.append(('%s/bs%d/g%d' % (name, bs, groups), ['-b', str(bs), '-g', str(g), '-N', str(16 * groups)] + args, size, steps))
    # tune2fs on a filesystem whose journal still has to be replayed (tune2fs replays it first, through the library's journal code, which reopens the filesystem)
    DBG = tool('debugfs')
    pay = os.path.join(scratch(), 'c20.payload'); open(pay, 'wb').write(b'\x5a' * 4096)
    js = os.path.join(scratch(), 'c20.jscript'); open(js, 'w').write('jo\njw -b 333 %s\njc\n' % pay)
    for name, args in (('journal', ['-t', 'ext4', '-O', '^resize_inode,^metadata_csum', '-J', 'size=1']), ('journal_csum', ['-t', 'ext4', '-O', '^resize_inode,metadata_csum,64bit', '-J', 'size=1']),
                       ('journal_ext3', ['-t', 'ext3', '-O', '^resize_inode', '-J', 'size=1'])):
        for groups in (8, 26) if quick else (6, 8, 10, 26, 28):
            for tl, targs in (('-U', ['-f', '-U', '11111111-2222-3333-4444-555555555555']), ('-O large_file,^filetype', ['-O', 'large_file,^filetype']), ('-L -O ^dir_nlink', ['-L', 'lbl', '-O', '^dir_nlink'])):
                steps = [('SETUP debugfs jo/jw/jc: a committed transaction waits in the journal', [DBG, '-w', '-f', js, '{img}']),
                         ('NOFSCK tune2fs %s on a filesystem that needs recovery' % tl, [T] + targs + ['{img}'])]
                jobs.append(('%s/bs1024/g%d/needs_recovery/tune2fs %s' % (name, groups, tl), ['-b', '1024', '-g', '256', '-N', str(16 * groups)] + args, groups * 256 + 1, steps))
    # a repairing e2fsck must refresh backups that differ from the primary, whatever state the primary was in: the primary alone gets a feature change (debugfs
    # writes the primary only) and, in the second variant, the "has errors" state; then e2fsck -fy
    for es, st in (('clean', []), ('errors', ['ssv state 3'])):
        sp = os.path.join(scratch(), 'c20.prim.%s' % es); open(sp, 'w').write('\n'.join(['feature ext_attr'] + st) + '\n')      # (large_file, dir_nlink, extents are set on the fly by the kernel and deliberately not compared by e2fsck)
        for name, args in (('sparse', ['-t', 'ext4', '-O', '^has_journal,^resize_inode,^ext_attr']), ('nosparse', ['-t', 'ext2', '-O', '^sparse_super,^resize_inode,^ext_attr']), ('metabg64', ['-t', 'ext4', '-O', '^has_journal,meta_bg,64bit,metadata_csum,^resize_inode,^ext_attr'])):
            for groups in (5, 9) if quick else (3, 5, 9, 26):
                steps = [('SETUP debugfs: feature change in the primary superblock only, state %s' % es, [DBG, '-w', '-f', sp, '{img}']), ('e2fsck -fy after a primary-only feature change (%s)' % es, [E2FSCK, '-fy', '{img}'])]
                jobs.append(('%s/bs1024/g%d/primary-only-change/%s' % (name, groups, es), ['-b', '1024', '-g', '256', '-N', str(16 * groups)] + args, groups * 256 + 1, steps))
    # default group size: plain e2fsck (no -b) must find a backup by itself
    for name, args, size in (('default_1k', ['-b', '1024', '-t', 'ext4', '-O', '^has_journal', '-N', '64'], 3 * 8192 + 1), ('default_4k', ['-b', '4096', '-t', 'ext4', '-O', '^has_journal,metadata_csum', '-N', '64'], 2 * 32768 + 100),
                             ('default_2k_ext2', ['-b', '2048', '-t', 'ext2', '-N', '64'], 2 * 16384 + 50)):
        jobs.append(('%s/plain-e2fsck' % name, args, size, [('PLAIN', None)]))
    res = pmap(job, jobs, chunksize=1)
    runs = ok = skip = 0
    for (cid, st, bad, n), j in zip(res, jobs):
        runs += n
        if st == 'skip': skip += 1; continue
        if st == 'ok': ok += 1
        for b in (bad or [])[:3]:
            ck.violation('%s :: %s' % (cid, b[:70]), {'case': cid, 'mke2fs_args': j[1], 'size': j[2], 'what': b})
    ck.add(evaluations=runs, distinct_nontrivial=ok, states=len(jobs), transitions=runs, traces_validated_against_impl=runs,
           rule='group count (quick: 1..12, 17, 18, 24..28, 33, 34, 49, 50; thorough 1..50) x layout {sparse_super, none, sparse_super2 with 2/1/0 backups, meta_bg (32-bit, 64-bit, with sparse_super2), no flex_bg, 64bit+csum, resize_inode} x block size; '
                'after mke2fs and after each of resize2fs (shrink and grow inside the last group, i.e. same group count; +2 groups; to 28 groups)/tune2fs/e2fsck -D transitions: (1) set of groups carrying a superblock copy == set computed from the format rule, copies current (geometry, features, checksum); '
                'plus journaled layouts with a committed transaction left in the journal x tune2fs {-U, feature changes} (tune2fs replays the journal first); (2) for every such location: primary superblock and descriptors zeroed, e2fsck -fy -b loc -B bs must exit <=1, then e2fsck -fn = 0, xck.tree equals the original and every group keeps its bitmap/inode-table locations',
           samples=[jobs[0][0], jobs[len(jobs) // 2][0], jobs[-1][0]])
    ck.cov['skipped'] = skip
    ck.assumptions += ['lost+found differences after recovery are ignored']
    return ck.finish()

def replay(path):
    d = json.load(open(path)); print(json.dumps(d['detail'], indent=1)[:3000]); return 1
