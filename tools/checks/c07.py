"""C07: mke2fs produces a consistent filesystem for every accepted configuration; -n writes nothing; output is reproducible."""
import os, json, re, struct, hashlib, zlib
from vlib.common import *
from vlib import fsweep
from xck.image import Image, Malformed
from xck.check import check as xcheck
from checks.c20 import check_backups

UUID = '6b33f586-a183-4383-921d-30ab132db9b9'
SEEDU = 'a0c4b9f1-7e1d-4c6b-8f4e-9d2f1b3c5a70'
FEATURE_BITS = {   # name -> (word, bit)
    'has_journal': ('c', 0x4), 'ext_attr': ('c', 0x8), 'resize_inode': ('c', 0x10), 'dir_index': ('c', 0x20), 'sparse_super2': ('c', 0x200), 'orphan_file': ('c', 0x1000),
    'filetype': ('i', 0x2), 'meta_bg': ('i', 0x10), 'extent': ('i', 0x40), 'extents': ('i', 0x40), '64bit': ('i', 0x80), 'mmp': ('i', 0x100), 'flex_bg': ('i', 0x200), 'ea_inode': ('i', 0x400),
    'large_dir': ('i', 0x4000), 'inline_data': ('i', 0x8000), 'metadata_csum_seed': ('i', 0x2000),
    'sparse_super': ('r', 0x1), 'large_file': ('r', 0x2), 'huge_file': ('r', 0x8), 'uninit_bg': ('r', 0x10), 'dir_nlink': ('r', 0x20), 'extra_isize': ('r', 0x40), 'quota': ('r', 0x100),
    'bigalloc': ('r', 0x200), 'metadata_csum': ('r', 0x400), 'project': ('r', 0x2000)}

def job(j):
    cid, opts, size, bs, prefill = j
    p = fsweep.worker_path('c7')
    fill = b''
    nbytes = size * 1024
    if os.path.exists(p): os.unlink(p)
    if prefill:
        with open(p, 'wb') as f: f.write(b'\xee' * nbytes)
    bad = []
    base = ['-q', '-F', '-U', UUID, '-E', 'hash_seed=' + SEEDU] if not any(o.startswith('hash_seed') for o in opts) else ['-q', '-F', '-U', UUID]
    # merge -E options (mke2fs takes the last -E only)
    eopts = [opts[i + 1] for i, o in enumerate(opts) if o == '-E']
    rest = []
    skip = False
    for i, o in enumerate(opts):
        if skip: skip = False; continue
        if o == '-E': skip = True; continue
        rest.append(o)
    argv = [MKE2FS, '-q', '-F', '-U', UUID, '-E', ','.join(['hash_seed=' + SEEDU] + eopts)] + rest + [p, '%dk' % size]
    # ---- -n must not write
    if prefill:
        before = hashlib.sha1(open(p, 'rb').read()).digest()
        rcn, outn = run(argv[:1] + ['-n'] + argv[1:], timeout=60)
        if hashlib.sha1(open(p, 'rb').read()).digest() != before or os.path.getsize(p) != nbytes:
            bad.append('mke2fs -n modified the target')
    rc, out = run(argv, timeout=120)
    if rc != 0:
        return (cid, 'rejected', bad, (out.strip().splitlines() or [''])[-1][:100])
    data = open(p, 'rb').read()
    off = 0
    for e in eopts:
        m = re.search(r'offset=(\d+)', e)
        if m: off = int(m.group(1))
    if off:
        if prefill and data[:off] != b'\xee' * off: bad.append('bytes in front of -E offset= were modified')
        data = data[off:]
    try:
        im = Image(data)
    except Exception as e:
        return (cid, 'accepted', bad + ['result not readable by the independent reader: %r' % e], '')
    plog = p + '.plog'
    if os.path.exists(plog): os.unlink(plog)
    rc2, out2 = run([E2FSCK, '-fn', '-E', 'problem_log=' + plog, p if not off else '%s?offset=%d' % (p, off)], timeout=120)
    codes = sorted(set(c for c, a in fsweep.read_problem_log(plog)))
    if rc2 != 0:
        bad.append('e2fsck -fn exits %s on the fresh filesystem: %s' % (rc2, out2[-300:]))
    elif codes and cid.startswith('badblocks/') and set(codes) <= {0x01001B, 0x01001C}:
        pass        # "Warning: Group N's superblock / copy of the group descriptors has a bad block": information about a listed bad block inside a backup, not an inconsistency
    elif codes:
        # e2fsck forgets some problems it declined to fix under -n when it computes its exit status (known finding of C02); a fresh filesystem on which
        # e2fsck asks any repair question is not consistent, whatever the exit status says
        bad.append('e2fsck -fn exits 0 but reports problems %s on the fresh filesystem: %s' % (['0x%06x' % c for c in codes], out2[-300:]))
    elif im.inodes_count <= 40000 and im.blocks_count <= (1 << 20) and not (im.incompat & (0x20000 | 0x10000)) :
        v = xcheck(im)
        if v: bad.append('independent checker: %s' % [list(x) for x in v[:3]])
    # ---- requested geometry / features (when an option is given twice the last one counts, as mke2fs documents)
    def last(opt):
        v = None
        for i, o in enumerate(rest[:-1]):
            if o == opt: v = rest[i + 1]
        return v
    if bs and im.bs != bs: bad.append('block size %d, requested %d' % (im.bs, bs))
    if im.blocks_count * im.bs > nbytes: bad.append('s_blocks_count %d x %d exceeds the requested size %d' % (im.blocks_count, im.bs, nbytes))
    if last('-I') and im.inode_size != int(last('-I')): bad.append('inode size %d, requested %s' % (im.inode_size, last('-I')))
    if last('-g') and (im.cpg if im.bigalloc else im.bpg) != int(last('-g')): bad.append('%s per group %d, requested %s' % ('clusters' if im.bigalloc else 'blocks', im.cpg if im.bigalloc else im.bpg, last('-g')))
    if last('-C') and im.bigalloc and im.bs * im.cratio != int(last('-C')): bad.append('cluster size %d, requested %s' % (im.bs * im.cratio, last('-C')))
    if last('-N') and im.inodes_count + im.groups * max(8, im.bs // im.inode_size) < int(last('-N')):
        bad.append('inode count %d below the requested %s (beyond per-group rounding)' % (im.inodes_count, last('-N')))
    words = {'c': im.compat, 'i': im.incompat, 'r': im.ro}
    want = {}
    for i, o in enumerate(rest):
        if o == '-O':
            for f in rest[i + 1].split(','):
                want[f.lstrip('^')] = not f.startswith('^')
    if '-J' in rest or '-j' in rest: want.pop('has_journal', None)      # -J implies a journal
    if 'too small for a journal' in out:                                  # announced degradation: journal (and with it the orphan file) is left out
        want.pop('has_journal', None); want.pop('orphan_file', None)
    if want.get('bigalloc'): want.pop('extent', None)
    if want.get('metadata_csum'): want.pop('uninit_bg', None)         # metadata_csum supersedes uninit_bg (ext4(5)); mke2fs keeps only the former
    for f, on in want.items():
        if f in FEATURE_BITS:
            w, b = FEATURE_BITS[f]
            if bool(words[w] & b) != on:
                bad.append('feature %s is %s although it was %s' % (f, 'clear' if on else 'set', 'requested' if on else 'disabled'))
    # ---- backups where the format prescribes
    b, _ = check_backups(data, 'mke2fs')
    bad += b
    # ---- reproducible
    if cid.endswith('#repro') or (zlib.crc32(cid.encode()) % 7 == 0):
        # same initial device state as for the first run (bytes mke2fs never writes keep whatever the device held)
        os.unlink(p)
        if prefill:
            with open(p, 'wb') as f: f.write(b'\xee' * nbytes)
        rc3, out3 = run(argv, timeout=120)
        if rc3 == 0 and open(p, 'rb').read()[off:] != data:
            d2 = open(p, 'rb').read()[off:]
            diff = [i // 1024 for i in range(0, min(len(data), len(d2)), 1024) if data[i:i + 1024] != d2[i:i + 1024]][:6]
            mmpb = im.sb.s_mmp_block * im.bs // 1024 if (im.incompat & 0x100) else None
            if mmpb is not None and all(mmpb <= x < mmpb + im.bs // 1024 for x in diff):
                bad.append('MMP-WALL-CLOCK: second run with the same UUID, hash seed and clock differs in the MMP block only (mmp_time is taken from the wall clock)')
            else:
                bad.append('second run with the same UUID, hash seed and clock differs at 1k-blocks %s' % diff)
    return (cid, 'accepted', bad, '')

def main(tier, only=None):
    global MKE2FS, E2FSCK
    ck = Check('C07', tier, 'model_checking')
    MKE2FS = tool('mke2fs'); E2FSCK = tool('e2fsck'); fsweep.init_scratch()
    quick = tier == 'quick'
    ck.set_deadline(300 if quick else 2700)
    root = os.path.join(scratch(), 'root7'); os.makedirs(root + '/d')
    open(root + '/f', 'wb').write(b'f' * 3000); open(root + '/d/g', 'wb').write(b'g'); os.symlink('f', root + '/l')
    # a second source tree whose top directory outgrows its first block while sub-directories are being added (the "no space in directory, expand, retry" path of the populator)
    root2 = os.path.join(scratch(), 'root7b'); os.makedirs(root2)
    for i in range(60):
        os.makedirs('%s/%s%03d/sub' % (root2, 'D' * 44, i)); open('%s/%s%03d/sub/f' % (root2, 'D' * 44, i), 'wb').write(b'x' * i)
    FS = [('ext2', ['-t', 'ext2']), ('ext3', ['-t', 'ext3', '-J', 'size=1']), ('ext4', ['-t', 'ext4', '-O', '^has_journal']), ('ext4j', ['-t', 'ext4', '-J', 'size=1']),
          ('ext4_64_csum', ['-t', 'ext4', '-O', '^has_journal,64bit,metadata_csum']), ('ext4_nocsum_uninit', ['-t', 'ext4', '-O', '^has_journal,^metadata_csum,uninit_bg']),
          ('metabg', ['-t', 'ext4', '-O', '^has_journal,meta_bg,^resize_inode']), ('bigalloc', ['-t', 'ext4', '-O', '^has_journal,bigalloc', '-C', '4096']),
          ('inline', ['-t', 'ext4', '-O', '^has_journal,inline_data']), ('quota', ['-t', 'ext4', '-O', '^has_journal,quota,project', '-I', '256']),
          ('ss2', ['-t', 'ext4', '-O', '^has_journal,sparse_super2']), ('orphan', ['-t', 'ext4', '-O', 'orphan_file', '-J', 'size=1']), ('eainode', ['-t', 'ext4', '-O', '^has_journal,ea_inode,large_dir']),
          ('noflex', ['-t', 'ext4', '-O', '^has_journal,^flex_bg']), ('noresize', ['-t', 'ext4', '-O', '^has_journal,^resize_inode']), ('nosparse', ['-t', 'ext2', '-O', '^sparse_super']),
          ('ext2_r0', ['-t', 'ext2', '-r', '0']), ('hurd', ['-t', 'ext2', '-o', 'hurd'])]
    jobs = []
    # (1) every filesystem size for -g 256 / 1k blocks, per feature set
    fsq = [f for f in FS if f[0] in ('ext2', 'ext4', 'ext4_64_csum', 'metabg', 'bigalloc', 'ext3', 'ss2', 'noresize')] if quick else FS
    for name, o in fsq:
        lo, hi = 40, 4 * 256 + 20
        if name == 'bigalloc':
            sizes = range(256, 4 * 1024 + 40, 1 if not quick else 3)
            for s in sizes: jobs.append(('size/%s/%dk' % (name, s), o + ['-b', '1024', '-N', '64'], s, 1024, s % 5 == 0))
            continue
        for s in range(lo, hi):
            jobs.append(('size/%s/%dk' % (name, s), o + ['-b', '1024', '-g', '256', '-N', '64'], s, 1024, s % 5 == 0))
    # (2) sizes around descriptor-block boundaries (32 / 64-byte descriptors per 1k block: 32 and 16 groups) and 2k/4k blocks
    for name, o in (FS if not quick else [f for f in FS if f[0] in ('ext4', 'ext4_64_csum', 'metabg')]):
        if name == 'bigalloc': continue
        for groups in (16, 17, 32, 33, 64, 65):
            for d in (range(-12, 13) if not quick else (-9, -1, 0, 1, 2, 9)):
                s = groups * 256 + 1 + d
                jobs.append(('gdt/%s/%dk' % (name, s), o + ['-b', '1024', '-g', '256', '-N', str(8 * groups)], s, 1024, False))
        for bs, g in ((2048, 512), (4096, 1024)):
            for groups in (1, 2, 3, 5):
                for d in ((-3, -1, 0, 1, 40) if quick else range(-20, 60, 3)):
                    s = (groups * g + d) * (bs // 1024)
                    if s > 60: jobs.append(('bs/%s/b%d/%dk' % (name, bs, s), o + ['-b', str(bs), '-g', str(g), '-N', '64'], s, bs, False))
    # (3) one option at a time, on three sizes
    devs = [['-I', '128'], ['-I', '256'], ['-I', '1024'], ['-i', '1024'], ['-i', '8192'], ['-i', '65536'], ['-N', '16'], ['-N', '5000'], ['-N', '20000'], ['-N', '70000'], ['-m', '0'], ['-m', '50'], ['-G', '1'], ['-G', '2'], ['-G', '16'], ['-G', '256'],
            ['-E', 'stride=4,stripe_width=8'], ['-E', 'stride=13'], ['-E', 'resize=20000'], ['-E', 'resize=200000'], ['-E', 'packed_meta_blocks=1'], ['-E', 'num_backup_sb=0'], ['-E', 'num_backup_sb=1'],
            ['-E', 'root_owner=1000:1000'], ['-E', 'lazy_itable_init=0'], ['-E', 'lazy_itable_init=1,lazy_journal_init=1'], ['-E', 'nodiscard'], ['-E', 'offset=4096'], ['-E', 'root_perms=0700'],
            ['-d', root], ['-d', root2], ['-T', 'small'], ['-T', 'news'], ['-T', 'largefile'], ['-L', 'label16charslong'], ['-M', '/mnt/x'], ['-e', 'remount-ro'], ['-c' if False else '-v'], ['-S'] if False else ['-K'],
            ['-J', 'size=4'], ['-J', 'size=1,location=200'], ['-O', 'encrypt'], ['-O', 'casefold'], ['-O', 'stable_inodes'], ['-O', 'verity'], ['-O', 'fast_commit', '-J', 'size=4'], ['-O', 'mmp'], ['-E', 'quotatype=usrquota'],
            ['-g', '8192'], ['-g', '264'], ['-C', '16384', '-O', 'bigalloc'], ['-O', '^has_journal', '-J', 'size=4'], ['-E', 'assume_storage_prezeroed=1'], ['-E', 'mmp_update_interval=2', '-O', 'mmp']]
    for name, o in (FS if not quick else [f for f in FS if f[0] in ('ext2', 'ext4', 'ext4j', 'ext4_64_csum', 'bigalloc', 'quota')]):
        for dv in devs:
            for s in ((3000, 9000) if quick else (1500, 3000, 9000, 20000)):
                if dv == ['-E', 'offset=4096']: s2 = s
                jobs.append(('opt/%s/%s/%dk' % (name, ' '.join(x if not x.startswith('/') else 'DIR' for x in dv), s), o + dv + (['-b', '1024'] if '-T' not in dv else []), s, 1024 if '-T' not in dv else None, s == 3000))
    # (3b) sparse_super2 backup-group choices x resize_inode on/off x group counts (one, two, three and many groups)
    for nb in (0, 1, 2):
        for ro in ('', ',^resize_inode'):
            for s in (200, 300, 600, 900, 3000) if quick else (200, 257, 300, 512, 513, 600, 768, 900, 1300, 3000, 9000):
                for bs in (1024, 4096):
                    if bs == 4096 and s < 600: continue
                    jobs.append(('ss2/nb%d%s/b%d/%dk' % (nb, ro, bs, s * (bs // 1024)), ['-t', 'ext4', '-O', '^has_journal,sparse_super2' + ro, '-E', 'num_backup_sb=%d' % nb, '-b', str(bs), '-g', str(256 * (bs // 1024)), '-N', '64'], s * (bs // 1024), bs, False))
    # (3c) a device that still holds old data and is not discarded (every byte 0xEE before mke2fs runs): whatever mke2fs leaves unwritten is garbage, so every structure
    # that e2fsck or the kernel will read has to be written explicitly, with and without lazy inode-table initialisation
    for name, o in FS:
        for lazy in (0, 1):
            for bs, isz in ((1024, 128), (1024, 256), (4096, 256)) if not quick else ((1024, 256), (4096, 256)):
                if name == 'hurd' and isz != 128: continue
                for s in ((3000, 9000) if quick else (1500, 3000, 9000, 20000)):
                    jobs.append(('dirty/%s/lazy%d/b%d/I%d/%dk' % (name, lazy, bs, isz, s), o + ['-b', str(bs), '-I', str(isz), '-E', 'nodiscard,lazy_itable_init=%d,lazy_journal_init=%d' % (lazy, lazy)] + (['-C', str(bs * 4)] if name == 'bigalloc' and bs != 1024 else []), s, bs, True))
    # (3d) bad-block lists (-l): one bad block at the first block of groups 1..4 (groups with and without a superblock backup), inside the backup descriptors of
    # group 1, inside its reserved GDT area, in the data area and at the very end
    for pos, what in ((8193, 'backup-sb-g1'), (16385, 'first-block-g2-no-backup'), (24577, 'backup-sb-g3'), (32769, 'first-block-g4-no-backup'), (8194, 'backup-gdt-g1'),
                      (8200, 'reserved-gdt-g1'), (20000, 'data'), (39999, 'last-block')):
        bf = os.path.join(scratch(), 'bb_%d.txt' % pos); open(bf, 'w').write('%d\n' % pos)
        for name, o in [f for f in FS if f[0] in (('ext2', 'ext4', 'ext4_64_csum', 'noresize', 'ext3') if not quick else ('ext2', 'ext4', 'noresize'))]:
            jobs.append(('badblocks/%s/%s' % (name, what), o + ['-b', '1024', '-l', bf], 40000, 1024, False))
    # (4) pairwise feature interaction: every pair of feature toggles on top of ext4 (each feature alone is in (3)/(1); code that serves one feature often forgets another)
    TOG = ['bigalloc', 'orphan_file', '^has_journal', 'quota', 'project', 'inline_data', 'meta_bg', '^resize_inode', '64bit', 'metadata_csum', '^metadata_csum', 'sparse_super2', 'ea_inode', '^flex_bg',
           '^extent', 'uninit_bg', 'encrypt', 'casefold', 'mmp', 'large_dir', '^huge_file', '^dir_index', 'fast_commit', 'stable_inodes', 'verity', '^sparse_super', '^ext_attr', 'metadata_csum_seed']
    for i, a in enumerate(TOG):
        for b in TOG[i + 1:]:
            if a.lstrip('^') == b.lstrip('^'): continue
            for s in ((3000, 9000) if quick else (1500, 3000, 9000, 20000)):
                for bs in ((1024,) if quick else (1024, 4096)):
                    o = ['-t', 'ext4', '-O', a + ',' + b, '-b', str(bs)] + (['-C', str(bs * 4)] if 'bigalloc' in (a, b) else []) + (['-J', 'size=1'] if '^has_journal' not in (a, b) and bs == 1024 else [])
                    jobs.append(('pair/%s+%s/b%d/%dk' % (a, b, bs, s), o, s, bs, False))
    # explicit reproducibility runs
    for name, o in FS:
        jobs.append(('repro/%s#repro' % name, o + ['-b', '1024', '-d', root], 6000, 1024, True))
    res = pmap(job, jobs, chunksize=4)
    acc = rej = 0; why = {}
    for (cid, st, bad, msg), j in zip(res, jobs):
        if st == 'accepted': acc += 1
        else:
            rej += 1; k = re.sub(r'\d+', 'N', msg)[:60]; why[k] = why.get(k, 0) + 1
        for b in bad[:2]:
            ck.violation('%s :: %s' % (cid, b[:50]), {'case': cid, 'options': j[1], 'size_k': j[2], 'what': b, 'root_cause_class': 'mmp-block-wall-clock' if b.startswith('MMP-WALL-CLOCK') else None})
    ck.add(evaluations=len(jobs), distinct_nontrivial=acc, states=len(jobs), transitions=len(jobs), traces_validated_against_impl=len(jobs),
           rule='configurations: (1) feature set x every device size from 40k to 4 groups+20 (1k blocks, -g 256; bigalloc every size to 4 MiB, quick every 3rd), (2) sizes +-12 blocks around 16/17/32/33/64/65 groups (descriptor-block boundaries) '
                'and around 1,2,3,5 groups for 2k/4k blocks, (4) every pair out of 28 feature toggles on top of ext4 (bigalloc, orphan_file, journal off, quota, project, inline_data, meta_bg, resize_inode off, 64bit, metadata_csum on/off, sparse_super2, ea_inode, flex_bg off, extent off, uninit_bg, encrypt, casefold, mmp, large_dir, ...) x sizes; (3) each of ~50 option deviations (-I -i -N -m -G -E stride/resize/packed_meta_blocks/num_backup_sb/offset/root_owner... -d -T -J -O encrypt/casefold/...) x feature set x sizes; '
                'every 5th target is pre-filled with 0xEE and first given to mke2fs -n (must stay identical); oracle on accepted configurations: e2fsck -fn = 0, independent checker clean, requested block/cluster/inode size, -g, -N, features present, '
                's_blocks_count within the device, exact backup set with current contents, second run byte-identical (1 in 7 + explicit runs). distinct_nontrivial = accepted configurations',
           samples=[jobs[0][0], jobs[len(jobs) // 2][0], jobs[-1][0]])
    ck.cov['accepted'] = acc; ck.cov['rejected'] = rej; ck.cov['rejection_messages'] = why
    ck.assumptions += ['rejected configurations are only counted (the property speaks about accepted ones)', 'xck does not interpret encrypt/casefold directories; for those feature sets only e2fsck judges consistency']
    return ck.finish()

def replay(path):
    global MKE2FS, E2FSCK
    d = json.load(open(path))['detail']
    MKE2FS = tool('mke2fs'); E2FSCK = tool('e2fsck'); fsweep.init_scratch()
    r = job((d['case'], d['options'], d['size_k'], None, True))
    print(r)
    return 1 if r[2] else 0
