"""C14: metadata checksums are format-exact (a), cover every protected byte (b), CRC primitives equal their definitions (c)."""
import os, json, subprocess, lzma, re
from vlib.common import *
from vlib import fsweep
from xck.image import Image
from xck import layout
from xck.check import check as xcheck

def cc_probe():
    S = build('plain')
    out = os.path.join(BUILD, 'bin/csumprobe')
    r = subprocess.run(['gcc', '-O1', '-g', '-w', '-I%s/lib' % S, '-o', out, os.path.join(VERIF, 'engines/csumprobe.c'),
                        '%s/lib/ext2fs/libext2fs.a' % S, '%s/lib/et/libcom_err.a' % S, '-lpthread'], stdout=subprocess.PIPE, stderr=subprocess.STDOUT, text=True)
    if r.returncode: log(r.stdout); raise SystemExit('csumprobe does not compile against the tree')
    return out
def cc_crcx():
    S = build('asan')
    out = os.path.join(BUILD, 'bin/crcx')
    r = subprocess.run(['gcc', '-O1', '-g', '-w', '-fsanitize=address', '-I%s/lib' % S, '-I' + os.path.join(VERIF, 'engines'), '-o', out, os.path.join(VERIF, 'engines/crcx.c'),
                        '%s/lib/ext2fs/libext2fs.a' % S, '%s/lib/et/libcom_err.a' % S, '-lpthread'], stdout=subprocess.PIPE, stderr=subprocess.STDOUT, text=True)
    if r.returncode: log(r.stdout); raise SystemExit('crcx does not compile against the tree')
    return out

CSUM_ERR = re.compile(r'hecksum|csum|CRC', re.I)
def flip_job(job):
    name, kind, oid, off, bit = job
    d = bytearray(fsweep.base_data(name))
    d[off] ^= 1 << bit
    p = fsweep.worker_path()
    with open(p, 'wb') as f: f.write(d)
    rc, out = run([E2FSCK, '-fn', p], timeout=30)
    r2, out2 = run([PROBE, p], timeout=30)
    liberr = [l for l in out2.splitlines() if l.startswith('ERR')]
    return (name, kind, str(oid), off, bit, rc, bool(liberr), liberr[:2], out[-400:] if rc == 0 else '')

def op_job(job):
    """(a): run one tool operation on a copy of a base image; every group-K checksum of the result must equal xck's computation"""
    name, label, cmds = job
    p = fsweep.worker_path('op')
    with open(p, 'wb') as f: f.write(fsweep.base_data(name)) if name else None
    log_ = []
    for argv in cmds:
        argv = [a.replace('{img}', p).replace('{dir}', os.path.dirname(p)) for a in argv]
        rc, out = run(argv, timeout=60)
        log_.append((os.path.basename(argv[0]), rc))
        if 'tune2fs' in argv[0] and ('run e2fsck -f' in out or 'Please run e2fsck' in out):
            # tune2fs asked for a follow-up e2fsck: the conversion is only complete after it (C11's rule)
            rc2, out2 = run([E2FSCK, '-fyD', p], timeout=60)
            log_.append(('e2fsck -fyD (requested by tune2fs)', rc2))
    data = open(p, 'rb').read()
    v = xcheck(data, want=('K',))
    if not v and label.startswith('inode layout'):
        # verifier direction: what the format defines (and xck confirmed) must also be accepted by e2fsck's and libext2fs's checksum verification
        rc, out = run([E2FSCK, '-fn', p], timeout=60)
        bad = [l for l in out.splitlines() if CSUM_ERR.search(l)]
        if bad: v = [('K', 'verifier-rejects-format-exact', bad[0][:200])]
    vall = [] if v else xcheck(data)
    return (name, label, log_, [list(x) for x in v[:5]], [list(x) for x in vall[:5]])

def jw_job(job):
    """(a2): debugfs's journal writer (jo/jw/jc) -> every journal checksum (descriptor tail, tag, commit, revoke tail, superblock) is verified by the
    independent parser/recovery model xck.jbd2, which must find exactly the written transactions committed and intact."""
    import struct
    from xck import jbd2
    base, jo, txns = job            # txns: list of (blocks 'AB', revokes 'C', payload kind)
    d = fsweep.base_data(base); im = Image(d); bs = im.bs
    ents = {e[0]: e[1] for e in im.read_dir(im.inode(2))}
    fb, _ = im.file_blocks(im.inode(ents[b'f12']))
    T = dict(zip('ABC', [q for l, q, u in fb[:3]]))
    p = fsweep.worker_path('jw'); open(p, 'wb').write(d)
    script = [jo]; expect = {}
    for ti, (blocks, revokes, kind) in enumerate(txns):
        pl = p + '.pl%d' % ti
        blks = []
        for bi, n in enumerate(blocks):
            b = (('t%d%s|' % (ti, n)).encode() * bs)[:bs]
            if kind == 'magic' and bi == 0: b = struct.pack('>I', jbd2.MAGIC) + b[4:]
            blks.append(b)
        open(pl, 'wb').write(b''.join(blks))
        cmd = 'jw'
        if blocks: cmd += ' -b ' + ','.join(str(T[n]) for n in blocks)
        if revokes: cmd += ' -r ' + ','.join(str(T[n]) for n in revokes)
        if blocks: cmd += ' ' + pl
        script.append(cmd)
        for n in revokes: expect.pop(T[n], None)
        for n, b in zip(blocks, blks):
            if n not in revokes: expect[T[n]] = b
    script.append('jc')
    sp = p + '.dbg'; open(sp, 'w').write('\n'.join(script) + '\n')
    rc, out = run([DEBUGFS, '-w', '-f', sp, p], timeout=60)
    r = open(p, 'rb').read(); im2 = Image(r)
    jb, _ = im2.file_blocks(im2.inode(8)); jmap = [q for l, q, u in sorted(jb)]
    cid = 'a2/%s/%s/%s' % (base, jo.replace(' ', ''), ';'.join('b%s-r%s-%s' % t for t in txns))
    try:
        v = jbd2.recover_model(lambda l: r[jmap[l] * bs:(jmap[l] + 1) * bs], bs)
    except Exception as e:
        return (cid, 'journal written by debugfs cannot be parsed: %r' % e)
    if v is None: return (cid, 'journal superblock written by debugfs is not acceptable')
    jsb = r[jmap[0] * bs:jmap[0] * bs + 1024]
    inc = struct.unpack_from('>I', jsb, 0x28)[0]
    if inc & (jbd2.INC_CSUM2 | jbd2.INC_CSUM3):
        from xck.crc import crc32c
        if struct.unpack_from('>I', jsb, 0xFC)[0] != crc32c(0xffffffff, jsb[:0xFC] + b'\0\0\0\0' + jsb[0x100:]):
            return (cid, 'journal superblock checksum written by debugfs is not crc32c over the superblock')
    if v.kind != 'exact' or v.error:
        return (cid, 'independent verification of the written journal fails: %s (%s)' % (v.kind, v.reason))
    if v.committed != len(txns):
        return (cid, 'debugfs wrote %d transactions, %d are found committed with valid checksums' % (len(txns), v.committed))
    got = jbd2.final_contents(v.writes)
    if got != expect:
        return (cid, 'blocks the written journal replays to (%s) differ from what was handed to jw (%s)' % (sorted(got), sorted(expect)))
    return (cid, None)

def tool_op_jobs(T, quick):
    """(base image or None, label, [argv, ...]) -- one tool operation (or short fixed sequence) per job; shared with C02's tool-written family"""
    jobs = []
    U2 = '11111111-2222-3333-4444-555555555555'
    sc = scratch()
    payload = os.path.join(sc, 'payload'); open(payload, 'wb').write(bytes((i * 5 + 1) & 0xff for i in range(5000)))
    setbg = os.path.join(sc, 'setbg.dbg'); open(setbg, 'w').write('set_bg 1 itable_unused 3\nset_bg 1 checksum calc\n')
    def dbg(*cmds):
        return [T['debugfs'], '-w', '-R', cmds[0], '{img}'] if len(cmds) == 1 else None
    bases = ['ext4csum', 'inline', 'eainode', 'quota', 'metabg', 'bs4k', 'bigalloc', 'mmp', 'desc128', 'deepext']
    for name in bases if not quick else ['ext4csum', 'inline', 'metabg', 'bigalloc', 'desc128', 'deepext']:
        D = lambda c: [T['debugfs'], '-w', '-R', c, '{img}']
        ops = [('mkdir', [D('mkdir /newdir')]), ('write', [D('write %s /newfile' % payload)]), ('symlink', [D('symlink /sl /one')]), ('long symlink', [D('symlink /sl2 ' + 'y' * 200)]),
               ('link+unlink', [D('ln /one /one2'), D('unlink /hard')]), ('rm', [D('rm /f12')]), ('rmdir', [D('rmdir /lin')] if False else [D('rm /lin/n00')]), ('mknod', [D('mknod /pipe p')]),
               ('ea_set', [D('ea_set /frag user.x ' + 'v' * 40)]), ('ea_set big', [D('ea_set /sparse user.y ' + 'w' * 600)]), ('ea_rm', [D('ea_rm /bs user.big')]),
               ('punch', [D('punch /f12 2 5')]), ('fallocate', [D('fallocate /empty 0 20')]), ('truncate via sif', [D('sif /bs size 10')]), ('kill_file', [D('kill_file /one')]),
               ('htree insert', [D('write %s /hx/%s' % (payload, 'k' * 36 + '_new'))]), ('expand dir', [D('expand_dir /d1')]),
               ('set_inode_field', [D('sif /d1 mode 040700')]), ('ssv', [D('ssv mnt_count 3')]), ('set_bg', [[T['debugfs'], '-w', '-f', setbg, '{img}']]),          # one session: between the two commands the descriptor checksum is stale, a second open may refuse the filesystem
               ('freeb+setb', [D('freeb 40'), D('setb 40')]),
               ('tune2fs -U', [[T['e2fsck'], '-fy', '{img}'], [T['tune2fs'], '-U', U2, '{img}']]), ('tune2fs -L', [[T['tune2fs'], '-L', 'lbl', '{img}']]),
               ('tune2fs csum_seed', [[T['tune2fs'], '-O', 'metadata_csum_seed', '{img}'], [T['tune2fs'], '-U', U2, '{img}']]),
               ('tune2fs csum off/on', [[T['e2fsck'], '-fy', '{img}'], [T['tune2fs'], '-O', '^metadata_csum', '{img}'], [T['e2fsck'], '-fy', '{img}'], [T['tune2fs'], '-O', 'metadata_csum', '{img}']]),
               ('tune2fs -r -m', [[T['tune2fs'], '-r', '10', '-e', 'remount-ro', '{img}']]),
               ('e2fsck -fyD', [[T['e2fsck'], '-fyD', '{img}']]), ('e2fsck bmap2extent', [[T['e2fsck'], '-fy', '-E', 'bmap2extent', '{img}']]),
               ('resize grow', [[T['resize2fs'], '-f', '{img}', '5000']]), ('resize shrink', [[T['resize2fs'], '-f', '-M', '{img}']]),
               ('journal add', [[T['tune2fs'], '-O', 'has_journal', '-J', 'size=1', '{img}']])]
        # inode layout sweep: every legal i_extra_isize (the checksum's upper half exists from 4 on; the in-inode attribute area starts right behind it)
        isz = Image(fsweep.base_data(name)).inode_size
        for x in range(4, isz - 128 + 1, 4) if isz > 128 else ():
            ops.append(('inode layout extra_isize=%d' % x, [D('sif /f12 extra_isize %d' % x), D('sif /d1 extra_isize %d' % x), D('sif /lnk_long extra_isize %d' % x)]))
        for label, cmds in ops:
            jobs.append((name, label, cmds))
    # a runtime base whose directories (with an empty block, an indexed one, one holding only hard links) have their inodes in the last groups: a shrink renumbers
    # the directories, and every directory block -- used or not -- carries the inode number in its checksum
    from checks import c08
    c08.E2FSCK = T['e2fsck']
    if c08.build_hiino('hiino_csum', 'metadata_csum,64bit') is not None:
        for tgt in (['1793'], ['1281'], ['1025'], ['769'], ['-M']):
            jobs.append(('hiino_csum', 'resize2fs shrink %s (directory inodes renumbered)' % tgt[0], [[T['resize2fs'], '-f', '{img}'] + tgt if tgt[0] != '-M' else [T['resize2fs'], '-f', '-M', '{img}']]))
    for i, opts in enumerate((['-t', 'ext4', '-O', 'metadata_csum,64bit'], ['-t', 'ext4', '-O', 'metadata_csum,^64bit', '-g', '256'], ['-t', 'ext4', '-O', 'metadata_csum,meta_bg,^resize_inode', '-b', '2048'],
                              ['-t', 'ext4', '-O', 'metadata_csum,bigalloc', '-C', '4096'], ['-t', 'ext4', '-O', 'metadata_csum,inline_data,quota,project', '-I', '512'],
                              ['-t', 'ext4', '-O', 'metadata_csum,mmp,metadata_csum_seed,orphan_file'], ['-t', 'ext4', '-O', '^metadata_csum,uninit_bg', '-g', '256'],
                              ['-t', 'ext4', '-O', 'metadata_csum,64bit', '-E', 'desc_size=128', '-g', '256'], ['-t', 'ext4', '-O', '^metadata_csum,uninit_bg,64bit', '-E', 'desc_size=128', '-g', '256'],
                              ['-t', 'ext4', '-O', 'metadata_csum,64bit', '-E', 'desc_size=256', '-g', '256'], ['-t', 'ext4', '-O', 'metadata_csum,^64bit', '-I', '128', '-g', '256'],
                              ['-t', 'ext4', '-O', 'metadata_csum,64bit', '-I', '1024', '-b', '4096'])):
        jobs.append((None, 'mke2fs ' + ' '.join(opts), [[T['mke2fs'], '-q', '-F'] + opts + ['{img}', '4096']]))
    for x in range(4, 512 - 128 + 1, 4 if not quick else 28):
        jobs.append((None, 'inode layout I=512 extra_isize=%d' % x, [[T['mke2fs'], '-q', '-F', '-t', 'ext4', '-O', 'metadata_csum', '-I', '512', '{img}', '4096'],
                                                                 [T['debugfs'], '-w', '-R', 'mkdir /d', '{img}'], [T['debugfs'], '-w', '-R', 'sif /d extra_isize %d' % x, '{img}'], [T['debugfs'], '-w', '-R', 'sif <2> extra_isize %d' % x, '{img}']]))
    return jobs

def main(tier, only=None):
    global E2FSCK, PROBE, DEBUGFS
    ck = Check('C14', tier, 'model_checking')
    quick = tier == 'quick'
    parts = only or ['a', 'b', 'c']
    E2FSCK = tool('e2fsck'); fsweep.init_scratch()
    T = {k: tool(k) for k in ('mke2fs', 'debugfs', 'tune2fs', 'resize2fs', 'e2fsck')}; DEBUGFS = T['debugfs']
    # ------------------------------------------------------------------ (c)
    if 'c' in parts:
        exe = cc_crcx()
        r = subprocess.run([exe, '300' if not quick else '200'], stdout=subprocess.PIPE, stderr=subprocess.PIPE, env={'ASAN_OPTIONS': 'detect_leaks=0:exitcode=99'}, timeout=1200)
        summ = None
        for l in r.stdout.decode().splitlines():
            d = json.loads(l)
            if d['type'] == 'violation':
                ck.violation('c/%s/len%d/align%d/seed%d/%s' % (d['prim'], d['len'], d['align'], d['seed'], d['content']), d)
            else: summ = d
        if r.returncode != 0 or summ is None:
            ck.violation('c:crash', {'exit': r.returncode, 'stderr': r.stderr.decode()[-2000:]})
        else:
            ck.add(evaluations=summ['evaluations'], transitions=summ['evaluations'], traces_validated_against_impl=summ['evaluations'])
            ck.part('c_crc_primitives', evaluations=summ['evaluations'], rule='every length 0..%d x alignment 0..7 x 3 seeds x {zeros, ramp, ones, mix, every single-bit buffer for len<=72 and every 37th length}, all 65536 two-byte buffers; reference = bit-at-a-time polynomial division' % summ['maxlen'])
    # ------------------------------------------------------------------ (a)
    if 'a' in parts:
        jobs = tool_op_jobs(T, quick)
        res = pmap(op_job, jobs, chunksize=1)
        n = 0
        for name, label, lg, v, vall in res:
            n += 1
            if v:
                ck.violation('a/%s/%s' % (name, label), {'part': 'a', 'base': name, 'op': label, 'tool_exits': lg, 'checksum_mismatches_found_by_xck': v})
            elif vall and all(rc in (0, 1) for t, rc in lg):
                # not a checksum problem; reported for completeness under C14's "written by any e2fsprogs tool" only if structural (it belongs to other properties otherwise)
                pass
        ck.add(evaluations=n, states=n, transitions=n, traces_validated_against_impl=n)
        ck.part('a_format_exact', tool_operations=n, rule='corpus image x one operation of debugfs/tune2fs/resize2fs/e2fsck/mke2fs; every checksum in the result recomputed by xck (sb, gd, bitmaps, inodes, extent blocks, dirent tails, dx tails, xattr blocks)')
        ck.add(samples=['a: %s / %s' % (j[0], j[1]) for j in jobs[:3]])
    if 'a' in parts:
        jj = []
        # single-transaction forms and multi-transaction forms in which no transaction carries both blocks and revokes (see DESIGN: the writer
        # loses the commit block of a blocks+revokes transaction when another transaction follows; that is not a checksum matter)
        shapes = [[('A', '', 'plain')], [('AB', '', 'magic')], [('ABC', '', 'magic')], [('AB', 'C', 'magic')], [('', 'C', 'plain'), ('AB', '', 'magic')], [('AB', '', 'plain'), ('', 'A', 'plain'), ('C', '', 'magic')],
                  [('A', '', 'magic'), ('A', '', 'plain'), ('B', '', 'magic')], [('', 'AB', 'plain')]]
        for base in ('ext3', 'ext4csum'):
            for jo in ('jo', 'jo -c', 'jo -c -v 2', 'jo -c -v 3'):
                for sh in shapes:
                    jj.append((base, jo, sh))
        res = pmap(jw_job, jj, chunksize=2)
        for cid, msg in res:
            if msg: ck.violation(cid, {'part': 'a2', 'what': msg})
        ck.add(evaluations=len(jj), states=len(jj), transitions=len(jj), traces_validated_against_impl=len(jj))
        ck.part('a2_journal_writer', journals=len(jj), rule='debugfs jo/jw/jc x {no checksum, -c, -c -v 2, -c -v 3} x transaction shapes incl. escaped blocks and revokes; verified by xck.jbd2 (all block, tag, commit and superblock checksums)')
    # ------------------------------------------------------------------ (b)
    if 'b' in parts:
        PROBE = cc_probe()
        bases = (['ext4csum', 'desc128'] if quick else ['ext4csum', 'inline', 'eainode', 'quota', 'metabg', 'mmp', 'bs4k', 'bigalloc', 'desc128', 'deepext'])
        jobs = []
        cover = {}
        for name in bases:
            img = Image(fsweep.base_data(name))
            objs = layout.csum_objects(img, max_dir_blocks=2 if quick else 4, max_inodes=None)
            if name == 'desc128' and quick: objs = [o for o in objs if o[0] == 'gd']          # quick: only what this base adds (descriptor bytes 64..127)
            if name == 'deepext': objs = [o for o in objs if o[0].startswith('ext')]
            kinds_seen = {}
            for kind, oid, ranges in objs:
                kinds_seen[kind] = kinds_seen.get(kind, 0) + 1
                # every byte for the first objects of each kind; later objects of the same kind: every 5th byte (quick 13th)
                dense = kinds_seen[kind] <= (2 if quick else 6)
                step = 1 if dense else (13 if quick else 5)
                for s, e in ranges:
                    for off in range(s, e, step):
                        for bit in ((0, 7) if dense else (3,)):
                            jobs.append((name, kind, oid, off, bit))
                cover.setdefault(kind, [0, 0]); cover[kind][0] += 1; cover[kind][1] += sum(len(range(s, e, step)) for s, e in ranges)
        # geometry family (vlib/geom.py): one checksum-only bit flip in EVERY in-use inode of filesystems whose inode tables have every size 1..18 blocks per group
        from vlib import geom
        gb = geom.build_geom(quick)
        for name in gb:
            for mid, parts in geom.inode_mutants(name):
                if 'i_atime' in mid:
                    jobs.append((name, 'inode', int(mid.split('/ino')[1].split('.')[0]), parts[0][0], 0))
        cover['geometry_family_images'] = len(gb)
        res = pmap(flip_job, jobs, chunksize=32)
        n = 0
        masked = {}
        for name in bases + gb:
            img = Image(fsweep.base_data(name)); m = set()
            for g in range(img.groups):
                gd = img.gd[g]
                if gd.bg_flags & 2:
                    m.update([gd.block_bitmap, gd.inode_bitmap] + list(range(gd.inode_table, gd.inode_table + img.itb_per_group)))
            masked[name] = (img, m)
        for name, kind, oid, off, bit, rc, liberr, libmsgs, out in res:
            n += 1
            cid = 'b/%s/%s:%s@%d^%d' % (name, kind, oid, off, 1 << bit)
            if kind == 'mmp':
                # documented exception: PR_0_MMP_CSUM_INVALID is PR_NO_OK; the library must still refuse the block
                if not liberr: ck.violation(cid, {'part': 'b', 'what': 'library read path accepted a damaged MMP block', 'base': name, 'off': off, 'bit': bit})
                continue
            if rc == 0:
                cls = 'pass0-problem-declined-but-exit-0' if kind == 'gd' else None
                if kind == 'bbitmap':
                    img, m = masked[name]; g = int(oid)
                    bitno = (off - img.gd[g].block_bitmap * img.bs) * 8 + bit
                    blk = img.group_first_block(g) + (bitno << img.cluster_bits)
                    if blk in m and (fsweep.base_data(name)[off] >> bit) & 1:
                        cls = 'uninit-group-metadata-bits-forced-on-load'
                ck.violation(cid, {'root_cause_class': cls, 'part': 'b', 'what': 'e2fsck -fn exit 0 although a checksum-covered byte of %s was changed' % kind, 'kind': kind, 'base': name, 'off': off, 'bit': bit,
                                   'library_reported': libmsgs, 'e2fsck_output': out})
            elif not liberr and kind not in ('gd',):
                ck.violation(cid + ':lib', {'part': 'b', 'what': 'library read path (csumprobe) reported no error for a damaged %s' % kind, 'kind': kind, 'base': name, 'off': off, 'bit': bit})
        ck.add(evaluations=n, states=n, transitions=2 * n, traces_validated_against_impl=n)
        ck.part('b_coverage', flips=n, objects_and_bytes_per_kind=cover)
        ck.add(samples=['b: %s %s:%s byte %d bit %d' % j for j in jobs[:2]])
    ck.add(rule='(a) tool operations x independent recomputation of every checksum; (b) every covered byte of the first objects of each kind (sampled stride for the rest) x bit flips -> e2fsck -fn must fail and libext2fs must report an error; (c) CRC primitives vs bitwise definitions',
           distinct_nontrivial=ck.cov['states'])
    ck.assumptions += ['journal block checksums: the writer side (debugfs jw) is checked here in (a2) with the independent journal parser; the verifying side (recovery) by C03\'s journal families with flipped bytes', 'xck\'s checksum code is the trusted reference (validated against the corpus and the repo\'s f_* images)']
    return ck.finish()

def replay(path):
    global E2FSCK, PROBE
    d = json.load(open(path)); det = d['detail']
    print(json.dumps(det, indent=1))
    if det.get('part') == 'b':
        E2FSCK = tool('e2fsck'); PROBE = cc_probe(); fsweep.init_scratch()
        r = flip_job((det['base'], det.get('kind', '?'), 0, det['off'], det['bit']))
        print(r); bad = r[5] == 0
        print('replay verdict:', 'VIOLATION reproduced' if bad else 'e2fsck rejects the image'); return 1 if bad else 0
    return 1
