"""C04: journal recovery can be interrupted at any point and re-run.

For every journal of a family and every front-end the device-write/fsync trace of one recovery is recorded (LD_PRELOAD shim);
crash images are enumerated exhaustively: every prefix of the trace, and for the writes issued after the last completed fsync
every subset lost (all subsets for windows <= 10 writes, else all subsets with <= 2 lost or <= 2 surviving).
I1 (on the crash image itself): journal marked empty or needs_recovery clear  =>  every replayed block has its final content.
I2: running recovery again on the crash image gives the block contents of the uninterrupted run."""
import os, json, struct, itertools, hashlib
from vlib.common import *
from vlib import fsweep
from xck import jbd2
from checks import c03
from checks.c08 import parse_trace

FRONT = {'e2fsck-journal-only': lambda: [c03.E2FSCK, '-y', '-E', 'journal_only'], 'e2fsck-fy': lambda: [c03.E2FSCK, '-fy'], 'debugfs-jr': lambda: [c03.DEBUGFS, '-w', '-R', 'jr']}

def crash_images(d, ev, bs, full_subset_limit=10, k=2):
    """yield (label, image bytes) for every admissible crash state of the trace ev applied to d"""
    durable = bytearray(d)
    window = []         # writes since the last completed fsync: (index, off, data)
    seen = set()
    def emit(label, img):
        h = hashlib.sha1(img).digest()
        if h in seen: return None
        seen.add(h)
        return (label, bytes(img))
    out = emit('start', durable)
    if out: yield out
    for i, e in enumerate(ev):
        if e[0] == 'S':
            for _, off, data in window:
                durable[off:off + len(data)] = data
            window = []
            continue
        if e[0] != 'W': continue
        window.append((i, e[1], e[2]))
        n = len(window)
        # crash right after write i: any subset of the window may be lost (write i itself included)
        if n <= full_subset_limit:
            subsets = itertools.chain.from_iterable(itertools.combinations(range(n), r) for r in range(n + 1))
        else:
            lost = list(itertools.chain.from_iterable(itertools.combinations(range(n), r) for r in range(k + 1)))
            surv = [tuple(x for x in range(n) if x not in s) for s in itertools.chain.from_iterable(itertools.combinations(range(n), r) for r in range(k + 1))]
            subsets = lost + surv
        for lostset in subsets:
            ls = set(lostset)
            img = bytearray(durable)
            for j, (wi, off, data) in enumerate(window):
                if j in ls: continue
                if off + len(data) > len(img): continue
                img[off:off + len(data)] = data
            out = emit('after-event-%d-lost-%s' % (i, ','.join(str(window[j][0]) for j in sorted(ls)) or 'none'), img)
            if out: yield out

def job(j):
    spec, fe = j
    try:
        return job1(spec, fe)
    except Exception as e:
        import traceback
        return (spec, fe, ['harness error %r %s' % (e, traceback.format_exc()[-500:])], 0, 0, 0)

def job1(spec, fe):
    (d, jd), v, c, J = c03.build_case(spec)
    bs = c['bs']; jmap = c['jmap']
    p = fsweep.worker_path('c4'); tl = p + '.trace'
    with open(p, 'wb') as f: f.write(d)
    if os.path.exists(tl): os.unlink(tl)
    env = tool_env({'LD_PRELOAD': IOTRACE, 'IOTRACE_PATH': p, 'IOTRACE_LOG': tl, 'IOTRACE_FIXED_UUID': '1'})
    rc, out = run(FRONT[fe]() + [p], timeout=60, env=env)
    with open(p, 'rb') as f: F = f.read()
    ev = parse_trace(tl)
    nW = sum(1 for e in ev if e[0] == 'W'); nS = sum(1 for e in ev if e[0] == 'S')
    bad = []
    # sanity: replaying the whole trace over the input must give the tool's own final image (the trace is complete)
    chk = bytearray(d)
    for e in ev:
        if e[0] == 'W': chk[e[1]:e[1] + len(e[2])] = e[2]
    if bytes(chk) != F:
        return (spec, fe, ['trace incomplete: replaying the recorded writes does not reproduce the final image'], 0, nW, nS)
    # blocks that recovery writes in the uninterrupted run = the replay targets
    final = {}
    for blk, data in v.writes:
        if blk * bs < len(d): final[blk] = F[blk * bs:(blk + 1) * bs]
    exempt = set(c['sbblocks']) | {jmap[0]}
    def blank(img):
        img = bytearray(img)
        for blk in exempt: img[blk * bs:(blk + 1) * bs] = b'\0' * bs
        return bytes(img)
    Fb = blank(F)
    n = 0; nfallback = [0]
    for label, X in crash_images(d, ev, bs):
        n += 1
        jsb = X[jmap[0] * bs:jmap[0] * bs + 1024]
        empty = struct.unpack_from('>I', jsb, 0x1C)[0] == 0
        needs = bool(struct.unpack_from('<I', X, 1024 + 0x60)[0] & 4)
        if empty or not needs:
            miss = [blk for blk in final if X[blk * bs:(blk + 1) * bs] != final[blk]]
            if miss:
                bad.append('I1 %s: crash image has %s but replayed block(s) %s are not on disk yet' % (label, 'an empty journal' if empty else 'needs_recovery clear', miss[:4]))
                continue
        with open(p, 'wb') as f: f.write(X)
        rc2, out2 = run(FRONT[fe]() + [p], timeout=60)
        if 'Superblock checksum does not match' in out2 or 'Bad magic number in super-block' in out2:
            # the crash tore the (byte-granular) primary superblock update: the documented way on is e2fsck with a backup superblock;
            # the corpus images use a non-default group size, so the location has to be named
            with open(p, 'wb') as f: f.write(X)
            rc2, out2 = run([c03.E2FSCK, '-fy', '-b', str(c['backup_sb']), '-B', str(bs), p], timeout=60)
            nfallback[0] += 1
        with open(p, 'rb') as f: R = f.read()
        if rc2 == 'TIMEOUT' or (isinstance(rc2, int) and rc2 < 0):
            bad.append('I2 %s: second recovery exits %s' % (label, rc2)); continue
        if blank(R) != Fb:
            diff = [i // bs for i in range(0, len(F), bs) if blank(R)[i:i + bs] != Fb[i:i + bs]][:6]
            bad.append('I2 %s: recovery re-run on the crash image differs from the uninterrupted run at blocks %s' % (label, diff)); continue
        jsb2 = R[jmap[0] * bs:jmap[0] * bs + 1024]
        if struct.unpack_from('>I', jsb2, 0x1C)[0] != 0 or struct.unpack_from('<I', R, 1024 + 0x60)[0] & 4:
            bad.append('I2 %s: after the re-run the journal is not empty / needs_recovery is still set' % label)
    return (spec, fe, bad, n, nW, nS)

def FMT_HAS_CSUM(fmt):
    return 'v2' in fmt or 'v3' in fmt

def main(tier, only=None):
    global IOTRACE
    ck = Check('C04', tier, 'fault_enumeration')
    c03.E2FSCK = tool('e2fsck'); c03.DEBUGFS = tool('debugfs'); fsweep.init_scratch()
    IOTRACE = os.path.join(BUILD, 'bin/iotrace.so')
    import subprocess
    os.makedirs(os.path.dirname(IOTRACE), exist_ok=True)
    subprocess.check_call(['gcc', '-O2', '-shared', '-fPIC', '-o', IOTRACE, os.path.join(VERIF, 'engines/iotrace.c'), '-ldl'])
    quick = tier == 'quick'
    two = c03.txn_shapes('AB')
    specs = []
    D = lambda *n: {'items': [['D', list(n)]]}
    big = {'items': [['D', list('ABCDEFGHIJKL')]]}
    for base, fmt in (('ext3', '32-none'), ('ext4csum', '64-v3'), ('ext3', '32-v2')):
        specs.append({'base': base, 'fmt': fmt, 'txns': [D('A', 'B'), {'items': [['R', ['A']], ['D', ['C', 'eB']]]}, c03.TAIL]})
        specs.append({'base': base, 'fmt': fmt, 'txns': [big, c03.TAIL]})                     # more replayed blocks than the 8-entry unix_io cache: evictions before the sync
        specs.append({'base': base, 'fmt': fmt, 'txns': [big, {'items': [['R', list('ABCD')], ['D', list('EFGHIJKL')]]}, c03.TAIL]})
        if FMT_HAS_CSUM(fmt):
            # journals whose replay reports an error after blocks were already replayed (a logged block fails its tag checksum, a later commit block
            # fails its checksum): the replayed blocks still have to be durable before the journal is emptied
            sh = [D('A', 'B'), D('C', 'D', 'E'), D('F')]
            probe = c03.build_case({'base': base, 'fmt': fmt, 'txns': sh + [c03.TAIL]})[3]
            for idx, (pos, kind, t, info) in enumerate(probe.log):
                if kind == 'data' and t == 1: specs.append({'base': base, 'fmt': fmt, 'txns': sh + [c03.TAIL], 'dev': ['flip', idx, 100, 1]})
                if kind == 'commit' and t >= 1: specs.append({'base': base, 'fmt': fmt, 'txns': sh + [c03.TAIL], 'dev': ['flip', idx, 17, 1]})
        n = len(c03.ctx(base)['jmap'])
        specs.append({'base': base, 'fmt': fmt, 'start': n - 3, 'txns': [D('A', 'B', 'C'), D('A'), c03.TAIL]})       # wrapped log
        S = two[::4] if quick else two
        for a in S:
            for b in (S[::2] if quick else S):
                specs.append({'base': base, 'fmt': fmt, 'txns': [{'items': a}, {'items': b}, c03.TAIL]})
    fes = only or list(FRONT)
    jobs = [(s, fe) for s in specs for fe in fes]
    res = pmap(job, jobs, chunksize=1)
    ncrash = 0; nruns = 0; wins = set()
    for spec, fe, bad, n, nW, nS in res:
        ncrash += n; nruns += 1 + n; wins.add((nW, nS))
        for b in bad[:2]:
            ck.violation('%s :: %s :: %s' % (c03.cid(spec), fe, b[:60]), {'spec': spec, 'frontend': fe, 'what': b, 'all': bad[:10]})
    ck.add(evaluations=nruns, distinct_nontrivial=ncrash, states=ncrash, transitions=nruns, traces_validated_against_impl=len(jobs),
           rule='journal (xck.jbd2 writer; all T<=2 shapes over two targets, 12-target transactions that overflow the block cache, wrapped log, journals with a tag- or commit-checksum failure in a later transaction; three formats) x front-end {e2fsck -y -E journal_only, e2fsck -fy, debugfs jr}: '
                'the pwrite/fsync trace of one recovery is recorded, then every crash image = every trace prefix x every subset of the writes issued since the last completed fsync lost (all subsets up to 10 pending writes, else <=2 lost / <=2 surviving); '
                'distinct_nontrivial = distinct crash images; oracle I1 (journal empty or needs_recovery clear => all replayed blocks already final) on each image, I2 (re-running recovery reproduces the uninterrupted result, journal empty, flag clear)',
           samples=[c03.cid(specs[0]) + ' :: ' + fes[0], c03.cid(specs[1]) + ' :: ' + fes[-1]])
    ck.cov['trace_shapes_writes_fsyncs'] = sorted(wins)[:20]
    ck.assumptions += ['block-granular crash model: a pwrite is either completely on stable storage or not at all; writes become durable at the next fsync on the descriptor',
                       'write order taken from an LD_PRELOAD trace of the unmodified binaries; the trace is validated by replaying it onto the input and comparing with the tool\'s final image']
    return ck.finish()

def replay(path):
    global IOTRACE
    c03.E2FSCK = tool('e2fsck'); c03.DEBUGFS = tool('debugfs'); fsweep.init_scratch()
    IOTRACE = os.path.join(BUILD, 'bin/iotrace.so')
    d = json.load(open(path))['detail']
    r = job1(d['spec'], d['frontend'])
    for b in r[2]: print('VIOLATION:', b)
    print('crash images: %d, writes %d, fsyncs %d' % (r[3], r[4], r[5]))
    return 1 if r[2] else 0
