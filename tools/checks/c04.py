"""C04: journal recovery can be interrupted at any point and re-run.

For every journal of a family and every front-end the device-write/fsync trace of one recovery is recorded (LD_PRELOAD shim);
crash images are enumerated exhaustively: every prefix of the trace, and for the writes issued after the last completed fsync
every subset lost (all subsets for windows <= 10 writes, else all subsets with <= 2 lost or <= 2 surviving).
I1 (on the crash image itself): journal marked empty or needs_recovery clear  =>  every replayed block has its final content.
I2: running recovery again on the crash image gives the block contents of the uninterrupted run."""
import os, json, struct, itertools, hashlib
from vlib.common import *
from vlib import fsweep
from xck import jbd2
from checks import c03
from checks.c08 import parse_trace

FRONT = {'e2fsck-journal-only': lambda: [c03.E2FSCK, '-y', '-E', 'journal_only'], 'e2fsck-fy': lambda: [c03.E2FSCK, '-fy'], 'debugfs-jr': lambda: [c03.DEBUGFS, '-w', '-R', 'jr']}

def crash_images(d, ev, bs, full_subset_limit=10, k=2):
    """yield (label, image bytes) for every admissible crash state of the trace ev applied to d"""
    durable = bytearray(d)
    window = []         # writes since the last completed fsync: (index, off, data)
    seen = set()
    def emit(label, img):
        h = hashlib.sha1(img).digest()
        if h in seen: return None
        seen.add(h)
        return (label, bytes(img))
    out = emit('start', durable)
    if out: yield out
    for i, e in enumerate(ev):
        if e[0] == 'S':
            for _, off, data in window:
                durable[off:off + len(data)] = data
            window = []
            continue
        if e[0] != 'W': continue
        window.append((i, e[1], e[2]))
        n = len(window)
        # crash right after write i: any subset of the window may be lost (write i itself included)
        if n <= full_subset_limit:
            subsets = itertools.chain.from_iterable(itertools.combinations(range(n), r) for r in range(n + 1))
        else:
            lost = list(itertools.chain.from_iterable(itertools.combinations(range(n), r) for r in range(k + 1)))
            surv = [tuple(x for x in range(n) if x not in s) for s in itertools.chain.from_iterable(itertools.combinations(range(n), r) for r in range(k + 1))]
            subsets = lost + surv
        for lostset in subsets:
            ls = set(lostset)
            img = bytearray(durable)
            for j, (wi, off, data) in enumerate(window):
                if j in ls: continue
                if off + len(data) > len(img): continue
                img[off:off + len(data)] = data
            out = emit('after-event-%d-lost-%s' % (i, ','.join(str(window[j][0]) for j in sorted(ls)) or 'none'), img)
            if out: yield out

def parse_trace2(path):
    """trace with two tracked files: -> [(dev, kind, off, data)]"""
    ev = []
    try:
        for l in open(path):
            p = l.split()
            if not p: continue
            dev = 1 if p[0].endswith('2') else 0
            k = p[0].rstrip('2')
            if k == 'W': ev.append((dev, 'W', int(p[1]), bytes.fromhex(p[3]) if len(p) > 3 else b'\0' * int(p[2])))
            elif k == 'S': ev.append((dev, 'S', 0, b''))
    except OSError:
        pass
    return ev

def crash_images2(imgs, ev, limit=10, k=2):
    """two devices; an fsync makes the pending writes of *that* device durable.  yields (label, [image0, image1])"""
    durable = [bytearray(imgs[0]), bytearray(imgs[1])]
    window = []
    seen = set()
    def emit(label, st):
        h = hashlib.sha1(st[0]).digest() + hashlib.sha1(st[1]).digest()
        if h in seen: return None
        seen.add(h); return (label, [bytes(st[0]), bytes(st[1])])
    o = emit('start', durable)
    if o: yield o
    for i, (dev, kind, off, data) in enumerate(ev):
        if kind == 'S':
            keep = []
            for w in window:
                if w[1] == dev: durable[dev][w[2]:w[2] + len(w[3])] = w[3]
                else: keep.append(w)
            window = keep
            continue
        window.append((i, dev, off, data))
        n = len(window)
        if n <= limit:
            subsets = itertools.chain.from_iterable(itertools.combinations(range(n), r) for r in range(n + 1))
        else:
            lost = list(itertools.chain.from_iterable(itertools.combinations(range(n), r) for r in range(k + 1)))
            subsets = lost + [tuple(x for x in range(n) if x not in s_) for s_ in lost]
        for ls in subsets:
            ls = set(ls)
            st = [bytearray(durable[0]), bytearray(durable[1])]
            for j, (wi, d_, off_, data_) in enumerate(window):
                if j in ls or off_ + len(data_) > len(st[d_]): continue
                st[d_][off_:off_ + len(data_)] = data_
            o = emit('after-event-%d-lost-%s' % (i, ','.join(str(window[j][0]) for j in sorted(ls)) or 'none'), st)
            if o: yield o

def job_ext(spec, fe):
    """external journal: the filesystem and the journal device are traced together"""
    (d, jd), v, c, J = c03.build_case(spec)
    bs = c['bs']; jsbo = c['jmap'][0] * bs
    w = fsweep.scratch_worker()
    p = os.path.join(w, 'c4x.img'); jp = os.path.join(w, 'c4x.jdev'); tl = p + '.trace'
    argv = [c03.E2FSCK] + (['-y', '-E', 'journal_only'] if fe == 'e2fsck-journal-only' else ['-fy']) + ['-j', jp, p]
    with open(p, 'wb') as f: f.write(d)
    with open(jp, 'wb') as f: f.write(jd)
    if os.path.exists(tl): os.unlink(tl)
    env = tool_env({'LD_PRELOAD': IOTRACE, 'IOTRACE_PATH': p, 'IOTRACE_PATH2': jp, 'IOTRACE_LOG': tl, 'IOTRACE_FIXED_UUID': '1'})
    rc, out = run(argv, timeout=60, env=env)
    F = open(p, 'rb').read(); FJ = open(jp, 'rb').read()
    ev = parse_trace2(tl)
    nW = sum(1 for e in ev if e[1] == 'W'); nS = sum(1 for e in ev if e[1] == 'S')
    chk = [bytearray(d), bytearray(jd)]
    for dev, kind, off, data in ev:
        if kind == 'W': chk[dev][off:off + len(data)] = data
    if bytes(chk[0]) != F or bytes(chk[1]) != FJ:
        return (spec, fe, ['trace incomplete: replaying the recorded writes does not reproduce the final images'], 0, nW, nS)
    final = {blk: F[blk * bs:(blk + 1) * bs] for blk, _ in v.writes if blk * bs < len(d)}
    exempt = set(c['sbblocks'])
    def blank(img):
        img = bytearray(img)
        for blk in exempt: img[blk * bs:(blk + 1) * bs] = b'\0' * bs
        return bytes(img)
    Fb = blank(F); bad = []; n = 0
    for label, (X, XJ) in crash_images2([d, jd], ev):
        n += 1
        empty = struct.unpack_from('>I', XJ, jsbo + 0x1C)[0] == 0
        needs = bool(struct.unpack_from('<I', X, 1024 + 0x60)[0] & 4)
        if empty or not needs:
            miss = [blk for blk in final if X[blk * bs:(blk + 1) * bs] != final[blk]]
            if miss:
                bad.append('I1 %s: crash state has %s but replayed block(s) %s are not on the filesystem device yet' % (label, 'an empty journal' if empty else 'needs_recovery clear', miss[:4])); continue
        with open(p, 'wb') as f: f.write(X)
        with open(jp, 'wb') as f: f.write(XJ)
        rc2, out2 = run(argv, timeout=60)
        if 'Superblock checksum does not match' in out2 or 'Bad magic number in super-block' in out2:
            with open(p, 'wb') as f: f.write(X)
            rc2, out2 = run([c03.E2FSCK, '-fy', '-b', str(c['backup_sb']), '-B', str(bs), '-j', jp, p], timeout=60)
        R = open(p, 'rb').read(); RJ = open(jp, 'rb').read()
        if rc2 == 'TIMEOUT' or (isinstance(rc2, int) and rc2 < 0): bad.append('I2 %s: second recovery exits %s' % (label, rc2)); continue
        if blank(R) != Fb:
            diff = [i // bs for i in range(0, len(F), bs) if blank(R)[i:i + bs] != Fb[i:i + bs]][:6]
            bad.append('I2 %s: recovery re-run on the crash state differs from the uninterrupted run at blocks %s' % (label, diff)); continue
        if struct.unpack_from('>I', RJ, jsbo + 0x1C)[0] != 0 or struct.unpack_from('<I', R, 1024 + 0x60)[0] & 4:
            bad.append('I2 %s: after the re-run the journal is not empty / needs_recovery is still set' % label)
    return (spec, fe, bad, n, nW, nS)

def job(j):
    spec, fe = j
    try:
        if spec['base'] == 'extj': return job_ext(spec, fe)
        return job1(spec, fe)
    except Exception as e:
        import traceback
        return (spec, fe, ['harness error %r %s' % (e, traceback.format_exc()[-500:])], 0, 0, 0)

def job1(spec, fe):
    (d, jd), v, c, J = c03.build_case(spec)
    bs = c['bs']; jmap = c['jmap']
    p = fsweep.worker_path('c4'); tl = p + '.trace'
    with open(p, 'wb') as f: f.write(d)
    if os.path.exists(tl): os.unlink(tl)
    env = tool_env({'LD_PRELOAD': IOTRACE, 'IOTRACE_PATH': p, 'IOTRACE_LOG': tl, 'IOTRACE_FIXED_UUID': '1'})
    rc, out = run(FRONT[fe]() + [p], timeout=60, env=env)
    with open(p, 'rb') as f: F = f.read()
    ev = parse_trace(tl)
    nW = sum(1 for e in ev if e[0] == 'W'); nS = sum(1 for e in ev if e[0] == 'S')
    bad = []
    # sanity: replaying the whole trace over the input must give the tool's own final image (the trace is complete)
    chk = bytearray(d)
    for e in ev:
        if e[0] == 'W': chk[e[1]:e[1] + len(e[2])] = e[2]
    if bytes(chk) != F:
        return (spec, fe, ['trace incomplete: replaying the recorded writes does not reproduce the final image'], 0, nW, nS)
    # blocks that recovery writes in the uninterrupted run = the replay targets
    final = {}
    for blk, data in v.writes:
        if blk * bs < len(d): final[blk] = F[blk * bs:(blk + 1) * bs]
    exempt = set(c['sbblocks']) | {jmap[0]}
    def blank(img):
        img = bytearray(img)
        for blk in exempt: img[blk * bs:(blk + 1) * bs] = b'\0' * bs
        return bytes(img)
    Fb = blank(F)
    n = 0; nfallback = [0]
    for label, X in crash_images(d, ev, bs):
        n += 1
        jsb = X[jmap[0] * bs:jmap[0] * bs + 1024]
        empty = struct.unpack_from('>I', jsb, 0x1C)[0] == 0
        needs = bool(struct.unpack_from('<I', X, 1024 + 0x60)[0] & 4)
        if empty or not needs:
            miss = [blk for blk in final if X[blk * bs:(blk + 1) * bs] != final[blk]]
            # (a filesystem that had already lost the flag before the run: the state only counts once the replay has put something on the device)
            begun = any(X[blk * bs:(blk + 1) * bs] != d[blk * bs:(blk + 1) * bs] for blk in final)
            if miss and (begun or not spec.get('norecover')):
                bad.append('I1 %s: crash image has %s but replayed block(s) %s are not on disk yet' % (label, 'an empty journal' if empty else 'needs_recovery clear', miss[:4]))
                continue
        with open(p, 'wb') as f: f.write(X)
        rc2, out2 = run(FRONT[fe]() + [p], timeout=60)
        if 'Superblock checksum does not match' in out2 or 'Bad magic number in super-block' in out2:
            # the crash tore the (byte-granular) primary superblock update: the documented way on is e2fsck with a backup superblock;
            # the corpus images use a non-default group size, so the location has to be named
            with open(p, 'wb') as f: f.write(X)
            rc2, out2 = run([c03.E2FSCK, '-fy', '-b', str(c['backup_sb']), '-B', str(bs), p], timeout=60)
            nfallback[0] += 1
        with open(p, 'rb') as f: R = f.read()
        if rc2 == 'TIMEOUT' or (isinstance(rc2, int) and rc2 < 0):
            bad.append('I2 %s: second recovery exits %s' % (label, rc2)); continue
        if blank(R) != Fb:
            diff = [i // bs for i in range(0, len(F), bs) if blank(R)[i:i + bs] != Fb[i:i + bs]][:6]
            bad.append('I2 %s: recovery re-run on the crash image differs from the uninterrupted run at blocks %s' % (label, diff)); continue
        jsb2 = R[jmap[0] * bs:jmap[0] * bs + 1024]
        if struct.unpack_from('>I', jsb2, 0x1C)[0] != 0 or struct.unpack_from('<I', R, 1024 + 0x60)[0] & 4:
            bad.append('I2 %s: after the re-run the journal is not empty / needs_recovery is still set' % label)
    return (spec, fe, bad, n, nW, nS)

def FMT_HAS_CSUM(fmt):
    return 'v2' in fmt or 'v3' in fmt

def main(tier, only=None):
    global IOTRACE
    ck = Check('C04', tier, 'fault_enumeration')
    c03.E2FSCK = tool('e2fsck'); c03.DEBUGFS = tool('debugfs'); fsweep.init_scratch()
    IOTRACE = os.path.join(BUILD, 'bin/iotrace.so')
    import subprocess
    os.makedirs(os.path.dirname(IOTRACE), exist_ok=True)
    subprocess.check_call(['gcc', '-O2', '-shared', '-fPIC', '-o', IOTRACE, os.path.join(VERIF, 'engines/iotrace.c'), '-ldl'])
    quick = tier == 'quick'
    two = c03.txn_shapes('AB')
    specs = []
    D = lambda *n: {'items': [['D', list(n)]]}
    big = {'items': [['D', list('ABCDEFGHIJKL')]]}
    for base, fmt in (('ext3', '32-none'), ('ext4csum', '64-v3'), ('ext3', '32-v2')):
        specs.append({'base': base, 'fmt': fmt, 'txns': [D('A', 'B'), {'items': [['R', ['A']], ['D', ['C', 'eB']]]}, c03.TAIL]})
        specs.append({'base': base, 'fmt': fmt, 'txns': [big, c03.TAIL]})                     # more replayed blocks than the 8-entry unix_io cache: evictions before the sync
        specs.append({'base': base, 'fmt': fmt, 'txns': [big, {'items': [['R', list('ABCD')], ['D', list('EFGHIJKL')]]}, c03.TAIL]})
        # a long revoked tail: after the last block that is actually replayed the replay pass still reads >= 8 further log blocks (descriptors and commits of
        # transactions whose only block is revoked by the last one), so every replayed block has left the 8-entry cache through an eviction (a plain pwrite)
        # and the cache is clean when recovery syncs: the sync must still reach the device
        for ntail in (4, 6):
            specs.append({'base': base, 'fmt': fmt, 'txns': [D('A', 'B')] + [D('C') for _ in range(ntail)] + [{'items': [['R', ['C']]]}, c03.TAIL]})
        if FMT_HAS_CSUM(fmt):
            # journals whose replay reports an error after blocks were already replayed (a logged block fails its tag checksum, a later commit block
            # fails its checksum): the replayed blocks still have to be durable before the journal is emptied
            sh = [D('A', 'B'), D('C', 'D', 'E'), D('F')]
            probe = c03.build_case({'base': base, 'fmt': fmt, 'txns': sh + [c03.TAIL]})[3]
            for idx, (pos, kind, t, info) in enumerate(probe.log):
                if kind == 'data' and t == 1: specs.append({'base': base, 'fmt': fmt, 'txns': sh + [c03.TAIL], 'dev': ['flip', idx, 100, 1]})
                if kind == 'commit' and t >= 1: specs.append({'base': base, 'fmt': fmt, 'txns': sh + [c03.TAIL], 'dev': ['flip', idx, 17, 1]})
        n = len(c03.ctx(base)['jmap'])
        specs.append({'base': base, 'fmt': fmt, 'start': n - 3, 'txns': [D('A', 'B', 'C'), D('A'), c03.TAIL]})       # wrapped log
        S = two[::4] if quick else two
        for a in S:
            for b in (S[::2] if quick else S):
                specs.append({'base': base, 'fmt': fmt, 'txns': [{'items': a}, {'items': b}, c03.TAIL]})
    fes = only or list(FRONT)
    jobs = [(s, fe) for s in specs for fe in fes]
    # the superblock has lost needs_recovery while the journal still holds committed transactions: e2fsck -y sets the flag again and runs the journal; from the
    # moment the first replayed block is on the device the flag has to be there too
    for base, fmt in (('ext3', '32-none'), ('ext4csum', '64-v3')):
        for tx in ([D('A', 'B'), c03.TAIL], [big, c03.TAIL], [D('A'), {'items': [['R', ['A']], ['D', ['B', 'C']]]}, D('A', 'D'), c03.TAIL]):
            for fe in ('e2fsck-fy', 'e2fsck-journal-only'):
                if not only or fe in only: jobs.append(({'base': base, 'fmt': fmt, 'txns': tx, 'norecover': True}, fe))
    # external journal device (filesystem and journal are different files: the flush of the replayed blocks and the journal reset go to different descriptors)
    for fmt in ('32-v3', '64-none'):
        for sp in ([D('A', 'B'), {'items': [['R', ['A']], ['D', ['C', 'eB']]]}, c03.TAIL], [big, c03.TAIL], [D('A'), D('B', 'C'), D('A', 'D', 'E', 'F'), c03.TAIL]):
            for fe in ('e2fsck-journal-only', 'e2fsck-fy'):
                if not only or fe in only: jobs.append(({'base': 'extj', 'fmt': fmt, 'txns': sp}, fe))
    res = pmap(job, jobs, chunksize=1)
    ncrash = 0; nruns = 0; wins = set()
    for spec, fe, bad, n, nW, nS in res:
        ncrash += n; nruns += 1 + n; wins.add((nW, nS))
        for b in bad[:2]:
            ck.violation('%s :: %s :: %s' % (c03.cid(spec), fe, b[:60]), {'spec': spec, 'frontend': fe, 'what': b, 'all': bad[:10]})
    ck.add(evaluations=nruns, distinct_nontrivial=ncrash, states=ncrash, transitions=nruns, traces_validated_against_impl=len(jobs),
           rule='journal (xck.jbd2 writer; all T<=2 shapes over two targets, 12-target transactions that overflow the block cache, long fully-revoked tails that leave the cache clean at the sync, wrapped log, journals with a tag- or commit-checksum failure in a later transaction; three formats) x front-end {e2fsck -y -E journal_only, e2fsck -fy, debugfs jr}: '
                'the pwrite/fsync trace of one recovery is recorded, then every crash image = every trace prefix x every subset of the writes issued since the last completed fsync lost (all subsets up to 10 pending writes, else <=2 lost / <=2 surviving); '
                'distinct_nontrivial = distinct crash images; oracle I1 (journal empty or needs_recovery clear => all replayed blocks already final) on each image, I2 (re-running recovery reproduces the uninterrupted result, journal empty, flag clear)',
           samples=[c03.cid(specs[0]) + ' :: ' + fes[0], c03.cid(specs[1]) + ' :: ' + fes[-1]])
    ck.cov['trace_shapes_writes_fsyncs'] = sorted(wins)[:20]
    ck.assumptions += ['block-granular crash model: a pwrite is either completely on stable storage or not at all; writes become durable at the next fsync on the descriptor',
                       'write order taken from an LD_PRELOAD trace of the unmodified binaries; the trace is validated by replaying it onto the input and comparing with the tool\'s final image']
    return ck.finish()

def replay(path):
    global IOTRACE
    c03.E2FSCK = tool('e2fsck'); c03.DEBUGFS = tool('debugfs'); fsweep.init_scratch()
    IOTRACE = os.path.join(BUILD, 'bin/iotrace.so')
    d = json.load(open(path))['detail']
    r = job1(d['spec'], d['frontend'])
    for b in r[2]: print('VIOLATION:', b)
    print('crash images: %d, writes %d, fsyncs %d' % (r[3], r[4], r[5]))
    return 1 if r[2] else 0
