"""C11: tune2fs conversions preserve data and consistency -- breadth-first search over sequences of tune2fs invocations.

A state is a filesystem image (de-duplicated on its hash after masking clock/counter fields), a transition is one tune2fs invocation
from a menu.  Oracle on every transition that tune2fs reports as successful: the requested setting is in the superblock, no other
superblock field changed except those on the operation's allow-list, every file is unchanged (independent tree digest) and the
filesystem is consistent (e2fsck -fn = 0 and independent checker clean) -- after the e2fsck run tune2fs asked for, if it asked."""
import zlib
import os, json, re, struct, hashlib, shutil
from vlib.common import *
from vlib import fsweep
from xck.image import Image, SB_FIELDS
from xck import tree as xtree
from xck.check import check as xcheck

U2 = '11111111-2222-3333-4444-555555555555'
def feat(word, bit, on):
    return lambda im: bool({'c': im.compat, 'i': im.incompat, 'r': im.ro}[word] & bit) == on
def sbf(name, val):
    return lambda im: getattr(im.sb, name) == val

# always allowed to change: clocks, counters, checksums
ALWAYS = {'s_wtime', 's_wtime_hi', 's_kbytes_written', 's_checksum', 's_free_blocks_count_lo', 's_free_blocks_count_hi', 's_free_inodes_count'}
F = 's_feature_compat s_feature_incompat s_feature_ro_compat'.split()
# (label, argv, setting check, extra superblock fields the operation may change)
OPS = [
    ('csum on', ['-O', 'metadata_csum'], feat('r', 0x400, True), F + ['s_checksum_type', 's_checksum_seed', 's_min_extra_isize', 's_want_extra_isize']),
    ('csum off', ['-O', '^metadata_csum'], feat('r', 0x400, False), F + ['s_checksum_type', 's_checksum_seed']),
    ('uninit_bg on', ['-O', 'uninit_bg'], feat('r', 0x10, True), F),
    ('uninit_bg off', ['-O', '^uninit_bg'], feat('r', 0x10, False), F),
    ('journal on', ['-O', 'has_journal', '-J', 'size=1'], feat('c', 0x4, True), F + ['s_journal_inum', 's_jnl_backup_type', 's_journal_dev', 's_jnl_blocks', 's_overhead_clusters']),
    ('journal off', ['-O', '^has_journal'], feat('c', 0x4, False), F + ['s_journal_inum', 's_jnl_backup_type', 's_journal_dev', 's_orphan_file_inum', 's_jnl_blocks', 's_overhead_clusters']),
    ('extent', ['-O', 'extent'], feat('i', 0x40, True), F),
    ('quota on', ['-O', 'quota'], feat('r', 0x100, True), F + ['s_usr_quota_inum', 's_grp_quota_inum', 's_prj_quota_inum']),
    ('quota off', ['-O', '^quota'], feat('r', 0x100, False), F + ['s_usr_quota_inum', 's_grp_quota_inum', 's_prj_quota_inum']),
    ('prjquota on', ['-O', 'project', '-Q', 'prjquota'], feat('r', 0x2000, True), F + ['s_prj_quota_inum', 's_usr_quota_inum', 's_grp_quota_inum']),
    ('prjquota off', ['-Q', '^prjquota'], lambda im: im.sb.s_prj_quota_inum == 0, F + ['s_prj_quota_inum']),
    ('csum_seed on', ['-O', 'metadata_csum_seed'], feat('i', 0x2000, True), F + ['s_checksum_seed']),
    ('csum_seed off', ['-O', '^metadata_csum_seed'], feat('i', 0x2000, False), F + ['s_checksum_seed']),
    ('uuid set', ['-f', '-U', U2], lambda im: im.uuid == bytes.fromhex(U2.replace('-', '')), ['s_uuid', 's_checksum_seed'] + F),
    ('uuid clear', ['-f', '-U', 'clear'], lambda im: im.uuid == b'\0' * 16, ['s_uuid', 's_checksum_seed'] + F),
    ('inode size 256', ['-I', '256'], sbf('s_inode_size', 256), ['s_inode_size', 's_min_extra_isize', 's_want_extra_isize', 's_feature_ro_compat']),
    ('flex_bg off', ['-O', '^flex_bg'], feat('i', 0x200, False), F + ['s_log_groups_per_flex']),
    ('huge_file off', ['-O', '^huge_file'], feat('r', 0x8, False), F),
    ('huge_file on', ['-O', 'huge_file'], feat('r', 0x8, True), F),
    ('dir_nlink off', ['-O', '^dir_nlink'], feat('r', 0x20, False), F),
    ('dir_nlink on', ['-O', 'dir_nlink'], feat('r', 0x20, True), F),
    ('dir_index off', ['-O', '^dir_index'], feat('c', 0x20, False), F),
    ('dir_index on', ['-O', 'dir_index'], feat('c', 0x20, True), F + ['s_def_hash_version', 's_hash_seed']),
    ('large_dir', ['-O', 'large_dir'], feat('i', 0x4000, True), F),
    ('ea_inode', ['-O', 'ea_inode'], feat('i', 0x400, True), F),
    ('extra_isize', ['-O', 'extra_isize'], feat('r', 0x40, True), F + ['s_min_extra_isize', 's_want_extra_isize']),
    ('sparse_super', ['-O', 'sparse_super'], feat('r', 0x1, True), F),
    ('label', ['-L', 'newlabel'], lambda im: im.sbraw[0x78:0x88].rstrip(b'\0') == b'newlabel', ['s_volume_name']),
    ('last mounted', ['-M', '/mnt/here'], lambda im: im.sbraw[0x88:0xC8].rstrip(b'\0') == b'/mnt/here', ['s_last_mounted']),
    ('reserved blocks', ['-r', '50'], sbf('s_r_blocks_count_lo', 50), ['s_r_blocks_count_lo', 's_r_blocks_count_hi']),
    ('reserved pct', ['-m', '1'], lambda im: True, ['s_r_blocks_count_lo', 's_r_blocks_count_hi']),
    ('errors', ['-e', 'remount-ro'], sbf('s_errors', 2), ['s_errors']),
    ('max mount count', ['-c', '20'], sbf('s_max_mnt_count', 20), ['s_max_mnt_count']),
    ('mount count', ['-C', '3'], sbf('s_mnt_count', 3), ['s_mnt_count']),
    ('interval', ['-i', '1d'], sbf('s_checkinterval', 86400), ['s_checkinterval']),
    ('mount_opts', ['-E', 'mount_opts=foo'], lambda im: im.sbraw[0x200:0x240].rstrip(b'\0') == b'foo', ['s_mount_opts']),
    ('default acl', ['-o', 'acl'], lambda im: bool(im.sb.s_default_mount_opts & 0x8), ['s_default_mount_opts']),
    ('stride', ['-E', 'stride=4,stripe_width=8'], lambda im: im.sb.s_raid_stride == 4 and im.sb.s_raid_stripe_width == 8, ['s_raid_stride', 's_raid_stripe_width']),
    ('hash_alg', ['-E', 'hash_alg=tea'], sbf('s_def_hash_version', 2), ['s_def_hash_version']),
    ('resgid', ['-g', '5', '-u', '7'], lambda im: im.sb.s_def_resgid == 5 and im.sb.s_def_resuid == 7, ['s_def_resgid', 's_def_resuid']),
    ('lastcheck', ['-T', '20200101'], lambda im: im.sb.s_lastcheck != 0, ['s_lastcheck', 's_lastcheck_hi']),
    ('force_fsck', ['-E', 'force_fsck'], lambda im: bool(im.sb.s_state & 2) or True, ['s_state']),
]
OPN = {o[0]: o for o in OPS}
# byte ranges of the superblock that are not integer fields in SB_FIELDS (arrays / strings)
SB_ARRAYS = [('s_uuid', 0x68, 16), ('s_volume_name', 0x78, 16), ('s_last_mounted', 0x88, 64), ('s_journal_uuid', 0xD0, 16), ('s_hash_seed', 0xEC, 16), ('s_jnl_blocks', 0x10C, 68),
             ('s_first_error_func', 0x1A8, 32), ('s_last_error_func', 0x1E0, 32), ('s_mount_opts', 0x200, 64), ('s_encrypt', 0x254, 20)]

def sb_diff(a, b):
    d = []
    for name, off, size in SB_FIELDS:
        if a[off:off + size] != b[off:off + size]: d.append(name)
    for name, off, size in SB_ARRAYS:
        if a[off:off + size] != b[off:off + size]: d.append(name)
    known = set()
    for name, off, size in SB_FIELDS + SB_ARRAYS: known.update(range(off, off + size))
    for i in range(1024):
        if i not in known and a[i] != b[i]: d.append('byte@0x%x' % i)
    return d

MASK = [(0x30, 4), (0x178, 8), (0x274, 1), (0x3FC, 4)]
def state_key(data):
    d = bytearray(data)
    for o, n in MASK: d[1024 + o:1024 + o + n] = b'\0' * n
    return hashlib.sha1(d).hexdigest()

def step(j):
    """apply one op to the state stored in file src -> (op label, verdict list, new state key or None, outcome)"""
    src, hist, label = j
    _, argv, setting, allow = OPN[label]
    p = fsweep.worker_path('c11')
    before = zlib.decompress(open(src, 'rb').read())          # states are kept compressed (images are mostly zeros; 16 k raw states once filled /dev/shm)
    with open(p, 'wb') as f: f.write(before)
    rc, out = run([TUNE2FS] + argv + [p], timeout=120)
    after = open(p, 'rb').read()
    if rc != 0:
        if after == before: return (label, [], None, 'refused', out[-200:])
        # a run that gave up half-way: whatever it wrote, the files must still be there (the conversion may be incomplete, the data may not be lost)
        bad = []
        try:
            d = xtree.diff(xtree.tree(Image(before)), xtree.tree(Image(after)))
            if d: bad.append('tune2fs exits %s after modifying the filesystem and files changed: %s' % (rc, d[:4]))
        except Exception as e:
            bad.append('tune2fs exits %s after modifying the filesystem and the tree is no longer readable: %r' % (rc, e))
        return (label, bad, None, 'failed-modified', out[-200:])
    bad = []
    asked = 'Please run e2fsck' in out or 'run e2fsck -f' in out.lower() or 'e2fsck -f' in out
    if asked:
        m = re.search(r'e2fsck -f(D?)', out)
        rcf, outf = run([E2FSCK, '-fy' + ('D' if (m and m.group(1)) or 'fD' in out else ''), p], timeout=120)
        if rcf not in (0, 1):
            bad.append('the e2fsck run tune2fs asked for exits %s: %s' % (rcf, outf[-300:]))
        after = open(p, 'rb').read()
    if after == before:
        return (label, [], None, 'noop', '')
    try:
        ia = Image(after); ib = Image(before)
    except Exception as e:
        return (label, ['result not readable by the independent reader: %r' % e], None, 'bad', out[-200:])
    try:
        if not setting(ia): bad.append('tune2fs exit 0 but the requested setting is not in the superblock')
    except Exception as e:
        bad.append('setting check failed: %r' % e)
    extra = [f for f in sb_diff(before[1024:2048], after[1024:2048]) if f not in ALWAYS and f not in allow]
    if asked:
        extra = [f for f in extra if f not in ('s_lastcheck', 's_lastcheck_hi', 's_state', 's_mnt_count', 's_mtime', 's_mtime_hi', 's_max_mnt_count')]
        if before[1024 + 0x68:1024 + 0x78] == b'\0' * 16: extra = [f for f in extra if f not in ('s_uuid', 's_checksum_seed')]      # e2fsck gives a filesystem without UUID a new one
    if extra: bad.append('superblock fields changed beyond the requested setting: %s' % extra)
    if asked and before[1024 + 0x68:1024 + 0x78] == b'\0' * 16 and 's_uuid' in extra:
        pass
    plog = p + '.plog'
    if os.path.exists(plog): os.unlink(plog)
    rc2, out2 = run([E2FSCK, '-fn', '-E', 'problem_log=' + plog, p], timeout=120)
    cls = None
    if rc2 != 0:
        codes = set(c for c, a in fsweep.read_problem_log(plog))
        ORPH = set(range(0x060007, 0x060011)) | set(range(0x000052, 0x000056))
        if codes and codes <= ORPH and (ib.compat & 0x1000):
            cls = 'tune2fs-unaware-of-orphan-file'
        elif codes and codes <= {0x060002} and (ia.incompat & 0x8000):
            cls = 'e2fsck-skips-quota-accounting-of-inline-data-symlinks'
        elif codes and codes <= {0x060002} and (ia.incompat & 0x400) and (ia.ro & 0x100):
            cls = 'quota-usage-of-ea-value-inodes-differs-between-tune2fs-and-e2fsck'
        bad.append(('[%s] ' % cls if cls else '') + 'e2fsck -fn exits %s afterwards (problem codes %s): %s' % (rc2, sorted('0x%06x' % c for c in codes), out2[-300:]))
    else:
        v = xcheck(ia)
        if v: bad.append('independent checker: %s' % [list(x) for x in v[:3]])
    try:
        d = xtree.diff(xtree.tree(ib), xtree.tree(ia))
        if d: bad.append('files changed: %s' % d[:4])
    except Exception as e:
        bad.append('tree not readable: %r' % e)
    key = state_key(after)
    dst = os.path.join(STATES, key)
    if not os.path.exists(dst):
        tmp = dst + '.%d' % os.getpid()
        with open(tmp, 'wb') as f: f.write(zlib.compress(after, 1))
        os.replace(tmp, dst)
    return (label, bad, key, 'ok' if not bad else 'bad', out[-200:] if bad else '')

def main(tier, only=None):
    global TUNE2FS, E2FSCK, STATES
    ck = Check('C11', tier, 'model_checking')
    TUNE2FS = tool('tune2fs'); E2FSCK = tool('e2fsck'); fsweep.init_scratch()
    quick = tier == 'quick'
    ck.set_deadline(420 if quick else 3000)
    STATES = os.path.join(scratch(), 'states'); os.makedirs(STATES)
    bases = only or ['ext2', 'ext2dx', 'ext3', 'ext4', 'ext4csum', 'quota', 'inline', 'eashare', 'iexpand', 'deepext']
    # runtime base: no quota feature, but well-formed legacy quota files /aquota.user and /aquota.group in the root directory whose usage numbers belong to
    # another filesystem (tune2fs -O quota takes the limits from such files and has to compute the usage itself)
    if not only or 'legacyq' in only:
        DBG = tool('debugfs'); sc = scratch()
        don = os.path.join(sc, 'donor.img'); open(don, 'wb').write(fsweep.base_data('lpffull'))
        run([DBG, '-R', 'dump <3> %s/aquota.user' % sc, don], timeout=60); run([DBG, '-R', 'dump <4> %s/aquota.group' % sc, don], timeout=60)
        tg = os.path.join(sc, 'legacyq.img'); open(tg, 'wb').write(fsweep.base_data('ext4'))
        if os.path.exists(sc + '/aquota.user') and os.path.getsize(sc + '/aquota.user') > 0:
            sp = os.path.join(sc, 'legacyq.dbg'); open(sp, 'w').write('write %s/aquota.user aquota.user\nwrite %s/aquota.group aquota.group\n' % (sc, sc))
            run([DBG, '-w', '-f', sp, tg], timeout=60)
            if run([E2FSCK, '-fn', tg], timeout=60)[0] == 0:
                fsweep._cache['legacyq'] = open(tg, 'rb').read()
                if 'legacyq' not in bases: bases = bases + ['legacyq']
            else: log('C11: runtime base legacyq not usable')
        bases = [b for b in bases if b != 'legacyq' or 'legacyq' in fsweep._cache]
    # runtime base: ea_inode filesystem with inodes that own two and three attributes stored in EA inodes (entry hashes depend on the checksum seed)
    if not only or 'eainode2' in only:
        DBG = tool('debugfs'); sc = scratch()
        tg = os.path.join(sc, 'eainode2.img'); open(tg, 'wb').write(fsweep.base_data('eainode'))
        sp = os.path.join(sc, 'eainode2.dbg')
        open(sp, 'w').write('\n'.join(['ea_set /f12 user.h1 %s' % ('1' * 1500), 'ea_set /f12 user.h2 %s' % ('2' * 2100), 'ea_set /f12 user.h3 %s' % ('3' * 1300),
                                       'ea_set /d1 user.g1 %s' % ('g' * 1400), 'ea_set /d1 user.g2 %s' % ('G' * 1600), 'ea_set /d1 user.small sm']) + '\n')
        run([DBG, '-w', '-f', sp, tg], timeout=60)
        if run([E2FSCK, '-fn', tg], timeout=60)[0] == 0:
            fsweep._cache['eainode2'] = open(tg, 'rb').read()
            if 'eainode2' not in bases: bases = bases + ['eainode2']
        else: log('C11: runtime base eainode2 not usable')
        bases = [b for b in bases if b != 'eainode2' or 'eainode2' in fsweep._cache]
    depth = 2 if quick else 3
    seen = {}; trans = 0; outcomes = {}; maxd = 0; frontier_left = 0
    samples = []
    for b in bases:
        d0 = fsweep.base_data(b); k0 = state_key(d0)
        with open(os.path.join(STATES, k0), 'wb') as f: f.write(zlib.compress(d0, 1))
        seen[k0] = (b,)
        level = [k0]
        for dep in range(1, depth + 1):
            if ck.expired(): ck.add(exhaustive=False); frontier_left += len(level); break
            labels = [o[0] for o in OPS]
            if quick and dep == 2:
                # quick: second level only with the conversions (the bookkeeping options commute with everything)
                labels = [o[0] for o in OPS[:27]]
            jobs = [(os.path.join(STATES, k), seen[k], l) for k in level for l in labels]
            res = pmap(step, jobs, chunksize=2)
            nxt = []
            for (label, bad, key, oc, txt), j in zip(res, jobs):
                trans += 1; outcomes[oc] = outcomes.get(oc, 0) + 1
                hist = j[1] + (label,)
                for x in bad[:2]:
                    m = re.match(r'\[([a-z0-9-]+)\] ', x)
                    ck.violation('%s :: %s' % (' ; '.join(hist), x[:60]), {'history': list(hist), 'what': x, 'tune2fs_output': txt, 'root_cause_class': m.group(1) if m else None})
                if key and key not in seen and not bad:
                    seen[key] = hist; nxt.append(key); maxd = max(maxd, dep)
                    if len(samples) < 4 and dep == depth: samples.append(' ; '.join(hist))
            level = nxt
            if not level: break
        else:
            frontier_left += len(level)
        for k in list(os.listdir(STATES)):          # the next base starts from its own image: nothing stored so far is needed again
            os.unlink(os.path.join(STATES, k))
    # focused deeper search: the checksum seed / UUID / metadata_csum requests depend on each other's leftovers (a seed kept in the superblock while the feature is
    # off, a UUID changed meanwhile), so sequences of four (thorough five) of them are explored from two bases
    FOCUS = ['csum_seed on', 'csum_seed off', 'uuid set', 'uuid clear', 'csum off', 'csum on']
    fdepth = 4 if quick else 5
    for b in ([x for x in ('ext4csum', 'deepext', 'eainode2') if x in bases] if not only else []):
        if ck.expired(): ck.add(exhaustive=False); break
        d0 = fsweep.base_data(b); k0 = state_key(d0)
        with open(os.path.join(STATES, k0), 'wb') as f: f.write(zlib.compress(d0, 1))
        fseen = {k0: (b,)}; level = [k0]
        for dep in range(1, fdepth + 1):
            if ck.expired(): ck.add(exhaustive=False); break
            jobs = [(os.path.join(STATES, k), fseen[k], l) for k in level for l in FOCUS]
            res = pmap(step, jobs, chunksize=2)
            nxt = []
            for (label, bad, key, oc, txt), j in zip(res, jobs):
                trans += 1; outcomes[oc] = outcomes.get(oc, 0) + 1
                hist = j[1] + (label,)
                for x in bad[:2]:
                    m = re.match(r'\[([a-z0-9-]+)\] ', x)
                    ck.violation('focus: %s :: %s' % (' ; '.join(hist), x[:60]), {'history': list(hist), 'what': x, 'tune2fs_output': txt, 'root_cause_class': m.group(1) if m else None})
                if key and key not in fseen and not bad:
                    fseen[key] = hist; nxt.append(key); maxd = max(maxd, dep)
            level = nxt
            if not level: break
        for k in list(os.listdir(STATES)): os.unlink(os.path.join(STATES, k))
        seen.update({('focus', k): v for k, v in fseen.items()})
    ck.add(evaluations=trans, distinct_nontrivial=len(seen), states=len(seen), transitions=trans, traces_validated_against_impl=trans,
           rule='BFS over tune2fs invocation sequences (menu of %d invocations: feature conversions, UUID, inode size, quota, labels, reserved blocks, error behaviour, intervals, mount options, RAID hints) from %d corpus images to depth %d; '
                'plus a focused search to depth 4 (thorough 5) over the six checksum-seed / UUID / metadata_csum requests; states de-duplicated on the image hash with clock/counter fields masked; oracle per successful transition: requested setting present, no other superblock field changed outside a per-operation allow-list, '
                'independent tree digest unchanged, e2fsck -fn = 0 and independent checker clean (after the e2fsck run tune2fs asked for, which must exit <= 1); a run that exits non-zero after writing to the image must not have changed any file' % (len(OPS), len(bases), depth),
           samples=samples or [' ; '.join(list(seen.values())[-1])])
    ck.cov['outcomes'] = outcomes; ck.cov['max_depth_reached'] = maxd; ck.cov['frontier_states_not_expanded'] = frontier_left
    ck.assumptions += ['MMP bases are left out (every read-write open sleeps)', 'tune2fs -U random/time are not in the menu (non-deterministic results)']
    return ck.finish()

def replay(path):
    global TUNE2FS, E2FSCK, STATES
    d = json.load(open(path))['detail']
    TUNE2FS = tool('tune2fs'); E2FSCK = tool('e2fsck'); fsweep.init_scratch()
    STATES = os.path.join(scratch(), 'states'); os.makedirs(STATES)
    h = d['history']
    cur = os.path.join(STATES, 'cur'); open(cur, 'wb').write(zlib.compress(fsweep.base_data(h[0]), 1))
    bad = []
    for l in h[1:]:
        label, bad, key, oc, txt = step((cur, (), l))
        print(l, '->', oc, bad, txt)
        if key: cur = os.path.join(STATES, key)
    return 1 if bad else 0
