"""C08: resize2fs preserves every file, leaves a consistent filesystem of the reported size, refuses without touching anything,
and keeps the 'has errors' flag in the primary superblock from its first modification to its final superblock write."""
import os, json, re, struct
from vlib.common import *
from vlib import fsweep
from xck.image import Image, Malformed
from xck import tree as xtree
from xck.check import check as xcheck

REFUSAL = re.compile(r'smaller than minimum|Nothing to do|too large to be expressed|Invalid new size|bigger than the size of the device|would exceed the maximum|'
                     r'requires|not support|cannot|Cannot|must|Please run|is mounted|larger than|too small|No such|Invalid|invalid|greater than|has not been fully tested|Use the force option', re.I)

def parse_trace(path):
    ev = []
    try:
        for l in open(path):
            p = l.split()
            if not p: continue
            if p[0] == 'W': ev.append(('W', int(p[1]), bytes.fromhex(p[3]) if len(p) > 3 else b'\0' * int(p[2])))
            elif p[0] == 'S': ev.append(('S',))
            elif p[0] == 'T': ev.append(('T', int(p[1])))
    except OSError:
        pass
    return ev

def flag_invariant(data, ev, sb_ranges):
    """walk the write trace: once the image differs from the input outside superblock copies, every later prefix (until the last write that
    touches the primary superblock) must show EXT2_ERROR_FS (bit 1 of s_state at byte 1024+0x3A) on the image."""
    img = bytearray(data)
    # the "final rewrite of the primary superblock" is the trailing run of writes that all lie inside it (libext2fs rewrites the
    # changed fields one by one); the invariant has to hold up to the start of that run
    last_sb = -1
    for i in range(len(ev) - 1, -1, -1):
        e = ev[i]
        if e[0] != 'W': continue
        if e[1] >= 1024 and e[1] + len(e[2]) <= 2048: last_sb = i
        else: break
    modified = False
    def in_sb(off):
        return any(a <= off < b for a, b in sb_ranges)
    for i, e in enumerate(ev):
        if e[0] == 'T':
            if e[1] > len(img): img.extend(b'\0' * (e[1] - len(img)))
            else: del img[e[1]:]
            continue
        if e[0] != 'W': continue
        off, buf = e[1], e[2]
        if off + len(buf) > len(img): img.extend(b'\0' * (off + len(buf) - len(img)))
        if not modified:
            old = img[off:off + len(buf)]
            if old != buf:
                for k in range(0, len(buf), 512):
                    if old[k:k + 512] != buf[k:k + 512] and not in_sb(off + k):
                        if off + k < len(data):      # bytes beyond the old end of the device are not part of the filesystem yet (resize2fs extends an image file first)
                            modified = True; break
        img[off:off + len(buf)] = buf
        if modified and i < last_sb:
            if not (struct.unpack_from('<H', img, 1024 + 0x3A)[0] & 2):
                return 'after write #%d (offset %d, %d bytes) the image is already modified but the primary superblock does not carry the error flag' % (i, off, len(buf))
    return None

def job(j):
    cid, base, args, trace = j
    p = fsweep.worker_path('c8')
    data = fsweep.base_data(base)
    with open(p, 'wb') as f: f.write(data)
    env = tool_env()
    tl = p + '.trace'
    if trace:
        if os.path.exists(tl): os.unlink(tl)
        env.update({'LD_PRELOAD': IOTRACE, 'IOTRACE_PATH': p, 'IOTRACE_LOG': tl})
    rc, out = run([RESIZE2FS] + list(args[:-1]) + [p] + ([args[-1]] if args[-1] is not None else []), timeout=120, env=env)
    with open(p, 'rb') as f: after = f.read()
    res = {'rc': rc, 'out': out[-500:]}
    if rc == 0 and '-P' not in args:
        m = re.search(r'is now (\d+) \(\d+k\) blocks long', out)
        try:
            ia = Image(after)
        except Exception as e:
            return (cid, 'bad', 'result unreadable by xck: %r' % e, res)
        if m and int(m.group(1)) != ia.blocks_count:
            return (cid, 'bad', 'reported size %s but s_blocks_count is %d' % (m.group(1), ia.blocks_count), res)
        if not m and 'Nothing to do' not in out and after != data:
            return (cid, 'bad', 'exit 0 without a size report', res)
        rc2, out2 = run([E2FSCK, '-fn', p], timeout=60)
        if rc2 != 0:
            return (cid, 'bad', 'e2fsck -fn after a successful resize exits %s: %s' % (rc2, out2[-400:]), res)
        if ia.inodes_count > 40000 or ia.blocks_count > (1 << 20):
            return (cid, 'ok-out-of-xck-scope', '', res)
        v = xcheck(ia)
        if v:
            return (cid, 'bad', 'xck.check after a successful resize: %s' % v[:4], res)
        d = xtree.diff(TREES[base], xtree.tree(ia))
        if d:
            return (cid, 'bad', 'files changed: %s' % d[:5], res)
        if trace:
            ib = Image(data)
            sbr = [(1024, 2048)]
            for im in (ib, ia):
                for g in im.backup_groups():
                    b = im.sb_block(g) * im.bs
                    sbr.append((b, b + 1024))
            msg = flag_invariant(data, parse_trace(tl), sbr)
            if msg:
                return (cid, 'bad', 'flag invariant: ' + msg, res)
        return (cid, 'ok', '', res)
    if '-P' in args:
        return (cid, 'ok' if after == data else 'bad', '' if after == data else 'resize2fs -P modified the image', res)
    if rc != 0:
        if REFUSAL.search(out) and 'No space left' not in out:
            # resize2fs extends an image *file* to the requested size before it looks at the filesystem; what it appends beyond the
            # old end (zeros and a final '0' character) is not inside the filesystem
            if after[:len(data)] != data:
                diff = [i for i in range(0, min(len(after), len(data)), 1024) if after[i:i + 1024] != data[i:i + 1024]][:5]
                return (cid, 'bad', 'refused (%s) but the image changed at byte offsets %s (size %d -> %d)' % (out.strip().splitlines()[-1][:80], diff, len(data), len(after)), res)
            return (cid, 'refused', '', res)
        # operational failure in mid-run: only the flag is required
        try:
            st = struct.unpack_from('<H', after, 1024 + 0x3A)[0]
        except Exception:
            st = 0
        if after != data and not (st & 2):
            return (cid, 'bad', 'failed in mid-run (exit %s) and the primary superblock is not flagged: %s' % (rc, out[-200:]), res)
        return (cid, 'failed-flagged', '', res)
    return (cid, 'ok', '', res)

def build_hiino(name, feat):
    """runtime base whose interesting objects have their inodes in the LAST groups (see main); returns the image bytes or None"""
    DBG = tool('debugfs')
    if True:
        if True:
            p = os.path.join(scratch(), name + '.img')
            rc, out = run([tool('mke2fs'), '-q', '-F', '-t', 'ext4', '-O', '^has_journal,^resize_inode,^flex_bg,' + feat, '-b', '1024', '-g', '256', '-N', '128', '-I', '256',
                           '-U', '6b33f586-a183-4383-921d-30ab132db9b9', '-E', 'hash_seed=a0c4b9f1-7e1d-4c6b-8f4e-9d2f1b3c5a70', p, str(8 * 256 + 1)], timeout=120)
            if rc != 0: log('C08: runtime base %s: mke2fs exit %s' % (name, rc)); return None
            src = os.path.join(scratch(), 'hi.payload'); open(src, 'wb').write(bytes((k * 7 + 3) & 0xff for k in range(5000)))
            frag = os.path.join(scratch(), 'hi.frag')
            with open(frag, 'wb') as f:
                for i in range(6): f.seek(2 * i * 1024); f.write(bytes((k + i) & 0xff for k in range(1024)))
            cmds = ['mknod /p%d p' % n for n in range(12, 113)]             # inodes 12..112: groups 0..6 (16 inodes per group)
            cmds += ['mkdir /d', 'write %s /d/data' % src, 'symlink /d/sl %s' % ('s' * 90), 'ea_set /d/data user.big %s' % ('B' * 300), 'ea_set /d/sl user.s ss',
                     'mkdir /d/sub', 'write %s /d/sub/frag' % frag, 'ea_set /d user.dir dv']
            cmds += ['mkdir /hx'] + ['expand_dir /hx'] * 4 + ['ln /p12 /hx/%s_%03d' % ('k' * 40, i) for i in range(70)] + ['sif /p12 links_count 71', 'mkdir /links']
            sp = os.path.join(scratch(), 'hi.dbg'); open(sp, 'w').write('\n'.join(cmds) + '\n')
            run([DBG, '-w', '-f', sp, p], timeout=120)
            rc, out = run([E2FSCK, '-fyD', p], timeout=120)            # indexes /hx (and packs every directory), so the loose blocks are added afterwards
            cmds = ['expand_dir /d', 'expand_dir /links'] + ['ln /p13 /links/%s_%02d' % ('l' * 40, i) for i in range(30)] + ['sif /p13 links_count 31']
            cmds += ['rm /p%d' % n for n in range(20, 113) if n % 16 != 5]      # a few fillers stay in every group
            open(sp, 'w').write('\n'.join(cmds) + '\n')
            run([DBG, '-w', '-f', sp, p], timeout=120)
            if rc not in (0, 1) or run([E2FSCK, '-fn', p], timeout=120)[0] != 0:
                log('C08: runtime base %s not usable' % name); return None
            d_ = open(p, 'rb').read(); im_ = Image(d_)
            hi_ = [n for n, ino, ft, l in im_.read_dir(im_.inode(2)) if n in (b'd', b'hx', b'links') and ino > 64]
            if len(hi_) != 3: log('C08: runtime base %s: directories did not land in the last groups (%s)' % (name, hi_)); return None
            fsweep._cache[name] = open(p, 'rb').read(); os.unlink(p)
            return fsweep._cache[name]

def main(tier, only=None):
    global RESIZE2FS, E2FSCK, IOTRACE, TREES
    ck = Check('C08', tier, 'model_checking')
    RESIZE2FS = tool('resize2fs'); E2FSCK = tool('e2fsck'); fsweep.init_scratch()
    IOTRACE = os.path.join(BUILD, 'bin/iotrace.so')
    import subprocess
    subprocess.check_call(['gcc', '-O2', '-shared', '-fPIC', '-o', IOTRACE, os.path.join(VERIF, 'engines/iotrace.c'), '-ldl'])
    quick = tier == 'quick'
    bases = only or (['ext4', 'ext2', 'ext4csum'] if quick else ['ext4', 'ext2', 'ext2dx', 'ext3', 'ext4csum', 'bigalloc', 'metabg', 'resizeino', 'inline', 'quota', 'ss2', 'bs4k', 'eainode'])
    # runtime-built bases with large flex groups: the inode tables of a flex group start far into its first block group, so a shrink can end
    # in the middle of one (the committed corpus has small flex groups only).  Built with the tree's mke2fs; used only if e2fsck -fn accepts them.
    flexwin = {}
    if not only:
        root = os.path.join(scratch(), 'root8'); os.makedirs(root + '/d')
        for i in range(5): open(root + '/d/f%d' % i, 'wb').write(bytes((i * 5 + k) & 0xff for k in range(1500 * (i + 1))))
        os.symlink('f0', root + '/d/l')
        for name, G, ngroups, extra in (('flex32', 32, 64, []), ('flex64pk', 64, 70, ['-E', 'packed_meta_blocks=1'])) if quick else \
                                       (('flex32', 32, 64, []), ('flex64', 64, 128, []), ('flex64pk', 64, 70, ['-E', 'packed_meta_blocks=1']), ('flex16csum', 16, 34, ['-O', 'metadata_csum,64bit'])):
            p = os.path.join(scratch(), name + '.img')
            rc, out = run([tool('mke2fs'), '-q', '-F', '-t', 'ext4', '-O', '^has_journal,^resize_inode', '-b', '1024', '-g', '256', '-G', str(G), '-N', str(16 * ngroups), '-I', '256',
                           '-U', '6b33f586-a183-4383-921d-30ab132db9b9', '-d', root] + extra + [p, str(ngroups * 256 + 1)], timeout=120)
            if rc != 0 or run([E2FSCK, '-fn', p], timeout=120)[0] != 0:
                log('C08: runtime base %s not usable (mke2fs exit %s)' % (name, rc)); continue
            fsweep._cache[name] = open(p, 'rb').read(); os.unlink(p)
            bases = bases + [name]
            # the window of target sizes that end inside the first group of the second flex group (bitmaps and inode tables of G groups live there)
            lo = G * 256 + 1
            flexwin[name] = (lo - 4, lo + (140 if quick else 256) + 4) if 'pk' not in name else (24, 24 + (200 if quick else 700))
    # runtime-built bases whose interesting objects have their inodes in the LAST groups (the low inodes are used up by fillers first): a shrink that removes those
    # groups has to renumber them -- multi-block directories (an empty block, a block holding only hard links to inodes that stay), an indexed directory, files with
    # xattr blocks, a fragmented file, slow symlinks
    if not only:
        DBG = tool('debugfs')
        for name, feat in ((('hiino_csum', 'metadata_csum,64bit'),) if quick else (('hiino_csum', 'metadata_csum,64bit'), ('hiino', '^metadata_csum,uninit_bg'), ('hiino_inline', 'metadata_csum,inline_data'))):
            if build_hiino(name, feat) is not None: bases = bases + [name]
    # runtime-built bases whose inodes are LOW but whose xattr blocks, data blocks, directory blocks and slow-symlink blocks sit in the LAST groups (the low groups
    # were full of ballast when they were allocated): a shrink relocates the blocks while the inodes keep their numbers
    if not only:
        DBG = tool('debugfs')
        for name, feat, isz in ((('hiblk', '^metadata_csum,uninit_bg', '128'), ('hiblk_csum', 'metadata_csum,64bit', '256')) if quick else
                                (('hiblk', '^metadata_csum,uninit_bg', '128'), ('hiblk_csum', 'metadata_csum,64bit', '256'), ('hiblk_ext2', None, '128'))):
            p = os.path.join(scratch(), name + '.img')
            argv = [tool('mke2fs'), '-q', '-F', '-b', '1024', '-g', '256', '-N', '128', '-I', isz, '-U', '6b33f586-a183-4383-921d-30ab132db9b9', '-E', 'hash_seed=a0c4b9f1-7e1d-4c6b-8f4e-9d2f1b3c5a70']
            argv += ['-t', 'ext4', '-O', '^has_journal,^resize_inode,^flex_bg,' + feat] if feat else ['-t', 'ext2', '-O', '^resize_inode']
            rc, out = run(argv + [p, str(8 * 256 + 1)], timeout=120)
            if rc != 0: log('C08: runtime base %s: mke2fs exit %s' % (name, rc)); continue
            small = os.path.join(scratch(), 'hb.small'); open(small, 'wb').write(bytes((k * 3 + 1) & 0xff for k in range(700)))
            ballast = os.path.join(scratch(), 'hb.ballast'); open(ballast, 'wb').write(b'\xbb' * (1024 * 1250))
            late = os.path.join(scratch(), 'hb.late'); open(late, 'wb').write(bytes((k * 11 + 5) & 0xff for k in range(9000)))
            cmds = ['write %s /a' % small, 'write %s /b' % small, 'mkdir /dd', 'mknod /pipe p', 'write %s /ballast' % ballast,
                    'ea_set /a user.big %s' % ('A' * 300), 'ea_set /b user.other %s' % ('B' * 200), 'ea_set /dd user.dir %s' % ('D' * 300), 'ea_set /pipe user.p %s' % ('P' * 300),
                    'symlink /slow %s' % ('s' * 200), 'ea_set /slow user.s %s' % ('S' * 300), 'write %s /late' % late, 'mkdir /dd/sub', 'write %s /dd/sub/x' % small, 'expand_dir /dd',
                    'rm /ballast']
            sp = os.path.join(scratch(), 'hb.dbg'); open(sp, 'w').write('\n'.join(cmds) + '\n')
            run([DBG, '-w', '-f', sp, p], timeout=120)
            if run([E2FSCK, '-fn', p], timeout=120)[0] != 0:
                log('C08: runtime base %s not usable' % name); continue
            d_ = open(p, 'rb').read(); im_ = Image(d_)
            ents = {n: ino for n, ino, ft, l in im_.read_dir(im_.inode(2))}
            acl = [im_.inode(ents[n]).file_acl for n in (b'a', b'b', b'dd', b'pipe', b'slow')]
            if min(acl) < 4 * 256 or max(ents.values()) > 40: log('C08: runtime base %s: xattr blocks did not land in the last groups (%s)' % (name, acl)); continue
            fsweep._cache[name] = d_; os.unlink(p)
            bases = bases + [name]
    # runtime-built bases without resize_inode and with a RAID stride layout, 16 groups, file data right behind the inode tables: growing beyond 32 / 64 groups adds
    # group-descriptor blocks, so the inode tables of the backup groups have to move by exactly the number of new blocks
    growwin = {}
    if not only:
        DBG = tool('debugfs')
        for name, opts in ((('stride_ext2', ['-t', 'ext2', '-O', '^resize_inode', '-E', 'stride=8']),) if quick else
                           (('stride_ext2', ['-t', 'ext2', '-O', '^resize_inode', '-E', 'stride=8']), ('stride_ext3', ['-t', 'ext3', '-O', '^resize_inode', '-E', 'stride=4', '-J', 'size=1']),
                            ('nostride_ext2', ['-t', 'ext2', '-O', '^resize_inode']))):
            p = os.path.join(scratch(), name + '.img')
            rc, out = run([tool('mke2fs'), '-q', '-F', '-b', '1024', '-g', '256', '-N', '256', '-U', '6b33f586-a183-4383-921d-30ab132db9b9'] + opts + [p, '4096'], timeout=120)
            if rc != 0: log('C08: runtime base %s: mke2fs exit %s' % (name, rc)); continue
            big = os.path.join(scratch(), 'st.big'); open(big, 'wb').write(bytes(((k * 13 + 7) & 0xff) | 1 for k in range(1024 * 700)))
            sm = os.path.join(scratch(), 'st.small'); open(sm, 'wb').write(b'small' * 300)
            sp = os.path.join(scratch(), 'st.dbg'); open(sp, 'w').write('write %s /big\nwrite %s /s1\nmkdir /d\nwrite %s /d/s2\nsymlink /d/l %s\nwrite %s /big2\n' % (big, sm, sm, 'x' * 80, big))
            run([DBG, '-w', '-f', sp, p], timeout=120)
            if run([E2FSCK, '-fn', p], timeout=120)[0] != 0: log('C08: runtime base %s not usable' % name); continue
            fsweep._cache[name] = open(p, 'rb').read(); os.unlink(p)
            bases = bases + [name]
            growwin[name] = [4097 + 256 * k for k in (1, 8, 15, 16, 17, 24, 40, 47, 48, 49, 56)] + [8192, 8193, 8194, 8449, 10240, 12288, 16384, 16385, 16641]
        # meta_bg filesystems grown into and across meta groups (32 descriptors per 1 KiB block): the first, second and last group of a meta group carry descriptor copies
        for name, opts, ng in ((('metabg_g20', ['-t', 'ext2', '-O', 'meta_bg,^resize_inode'], 20), ('metabg_g1', ['-t', 'ext4', '-O', '^has_journal,meta_bg,^resize_inode'], 1)) if quick else
                               (('metabg_g20', ['-t', 'ext2', '-O', 'meta_bg,^resize_inode'], 20), ('metabg_g1', ['-t', 'ext4', '-O', '^has_journal,meta_bg,^resize_inode'], 1),
                                ('metabg64_g30', ['-t', 'ext4', '-O', '^has_journal,meta_bg,64bit,metadata_csum,^resize_inode'], 30), ('metabg_noflex_g20', ['-t', 'ext4', '-O', '^has_journal,meta_bg,^resize_inode,^flex_bg,^uninit_bg,^metadata_csum'], 20))):
            p = os.path.join(scratch(), name + '.img')
            rc, out = run([tool('mke2fs'), '-q', '-F', '-b', '1024', '-g', '256', '-N', str(16 * max(ng, 2)), '-U', '6b33f586-a183-4383-921d-30ab132db9b9'] + opts + [p, str(ng * 256 + 1)], timeout=120)
            if rc != 0: log('C08: runtime base %s: mke2fs exit %s' % (name, rc)); continue
            sm = os.path.join(scratch(), 'mb.small'); open(sm, 'wb').write(b'metabg' * 500)
            sp = os.path.join(scratch(), 'mb.dbg'); open(sp, 'w').write('write %s /s1\nmkdir /d\nwrite %s /d/s2\nsymlink /d/l %s\n' % (sm, sm, 'y' * 80))
            run([DBG, '-w', '-f', sp, p], timeout=120)
            if run([E2FSCK, '-fn', p], timeout=120)[0] != 0: log('C08: runtime base %s not usable' % name); continue
            fsweep._cache[name] = open(p, 'rb').read(); os.unlink(p)
            bases = bases + [name]
            growwin[name] = [g * 256 + 1 for g in (2, 3, 16, 30, 31, 32, 33, 34, 40, 63, 64, 65, 66, 96, 97) if g > ng] + [ng * 256 + 100]
    TREES = {b: xtree.tree(Image(fsweep.base_data(b))) for b in bases}
    jobs = []
    for b in bases:
        im = Image(fsweep.base_data(b))
        cur = im.blocks_count; bpg = im.bpg
        hi = min(3 * cur, cur + 6 * bpg)
        sizes = set()
        if b in growwin:
            for sz in sorted(set(growwin[b])):
                jobs.append(('%s/to%d' % (b, sz), b, (str(sz),), sz % 2 == 0))
            jobs.append(('%s/-M' % b, b, ('-M', None), True))
            continue
        if b in flexwin:
            for s in range(*flexwin[b]):
                jobs.append(('%s/to%d' % (b, s), b, (str(s),), s % 16 == 0))
            jobs.append(('%s/-M' % b, b, ('-M', None), True))
            continue
        for s in range(max(1, 64), hi + 1):
            near = min(abs(s - k * bpg - im.first_data_block) for k in range(0, hi // bpg + 2))
            if not quick or near <= 6 or s % 13 == 0 or abs(s - cur) <= 6:
                sizes.add(s)
        sizes |= set([1, 2, 63, cur, hi + 20000])
        for s in sorted(sizes):
            jobs.append(('%s/to%d' % (b, s), b, (str(s),), (s % 5 == 0) or abs(s - cur) < 40))
        jobs.append(('%s/-M' % b, b, ('-M', None), True))
        jobs.append(('%s/-P' % b, b, ('-P', None), True))
        if im.is64: jobs.append(('%s/-s' % b, b, ('-s', None), True))
        elif im.incompat & 0x40: jobs.append(('%s/-b' % b, b, ('-b', None), True))
        jobs.append(('%s/-S8' % b, b, ('-S', '8', str(cur + bpg)), True))
    res = pmap(job, jobs, chunksize=4)
    stat = {}
    for (cid, st, msg, r), j in zip(res, jobs):
        stat[st] = stat.get(st, 0) + 1
        if st == 'bad':
            ck.violation(cid, {'base': j[1], 'args': j[2], 'what': msg, 'resize2fs': r})
    ck.add(evaluations=len(jobs), distinct_nontrivial=stat.get('ok', 0), states=len(jobs), transitions=len(jobs), traces_validated_against_impl=len(jobs),
           rule='populated corpus image x every target size (quick: all sizes within 6 blocks of a group boundary or of the current size, every 13th otherwise) from 64 blocks to 3x / +6 groups, plus -M -P -b/-s -S; plus runtime-built filesystems without resize_inode (RAID stride layout, data right behind the inode tables) grown across the 32- and 64-group descriptor-block boundaries, plus runtime-built filesystems whose xattr/data/directory blocks lie in the last groups while their inodes are low (blocks relocate, inodes stay), plus runtime-built filesystems whose directories (multi-block with an empty block / a block of hard links only / indexed), xattr-carrying files and symlinks have their inodes in the last groups so that every shrink renumbers them; plus runtime-built filesystems with 16/32/64-group flex groups (and packed_meta_blocks) x every shrink target that ends inside the metadata area of a flex group; '
                'oracle: success => reported size = s_blocks_count, e2fsck -fn = 0, xck.check clean, xck.tree unchanged, and on the traced runs the error-flag invariant over every prefix of the write trace; '
                'refusal => byte-identical image; mid-run failure => flagged superblock.  distinct_nontrivial = successful resizes',
           samples=[jobs[0][0], jobs[len(jobs) // 3][0], jobs[-1][0]])
    ck.cov['outcomes'] = stat
    ck.assumptions += ['write order is taken from the LD_PRELOAD trace of the unmodified binary (prefixes only, no reordering)', 'depth-2 chains are covered by C20\'s resize transitions']
    return ck.finish()

def replay(path):
    d = json.load(open(path)); print(json.dumps(d['detail'], indent=1)[:3000]); return 1
