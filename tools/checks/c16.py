"""C16: every bitmap backend behaves as a set of integers.
Explicit-state exploration to closure of the real backends' private state (engines/bitmapx.c)."""
import os, json, subprocess, time
from vlib.common import *

SRCS = ['engines/bitmapx.c', 'engines/bitmapx_ba.c', 'engines/bitmapx_32.c']

def build_harness():
    S = build('asan')
    out = os.path.join(BUILD, 'bin/bitmapx')
    os.makedirs(os.path.dirname(out), exist_ok=True)
    cmd = ['gcc', '-O1', '-g', '-fsanitize=address', '-fno-omit-frame-pointer', '-w', '-I%s/lib' % S, '-I%s/lib/ext2fs' % S, '-o', out] + \
          [os.path.join(VERIF, x) for x in SRCS] + ['%s/lib/ext2fs/libext2fs.a' % S, '%s/lib/et/libcom_err.a' % S, '-lpthread']
    r = subprocess.run(cmd, stdout=subprocess.PIPE, stderr=subprocess.STDOUT, text=True)
    if r.returncode:
        log(r.stdout)
        raise SystemExit('C16 harness does not compile against the tree')
    outw = os.path.join(BUILD, 'bin/bitmapw')
    cmd = ['gcc', '-O1', '-g', '-fsanitize=address', '-fno-omit-frame-pointer', '-w', '-I%s/lib' % S, '-I%s/lib/ext2fs' % S, '-o', outw,
           os.path.join(VERIF, 'engines/bitmapw.c'), '%s/lib/ext2fs/libext2fs.a' % S, '%s/lib/et/libcom_err.a' % S, '-lpthread']
    r = subprocess.run(cmd, stdout=subprocess.PIPE, stderr=subprocess.STDOUT, text=True)
    if r.returncode:
        log(r.stdout)
        raise SystemExit('C16 wide-bitmap harness does not compile against the tree')
    return out

# wide bitmaps (engines/bitmapw.c): (backend, start, elements, cluster_bits, position stride)
WIDE_QUICK = [(b, s, n, c, 1) for b in ('ba', 'rb', 'b32') for (s, n) in ((3, 200), (0, 131), (61, 140)) for c in (0, 2) if not (b == 'b32' and c)]
WIDE_THOROUGH = WIDE_QUICK + [(b, s, n, c, 1) for b in ('ba', 'rb', 'b32') for (s, n) in ((0, 330), (7, 257), (64, 192), (1, 64), (0, 65)) for c in (0, 1, 3) if not (b == 'b32' and c)]

def run_wide(args):
    exe, c, tmo = args
    argv = [exe.replace('bitmapx', 'bitmapw'), c[0], str(c[1]), str(c[2]), str(c[3]), str(c[4])]
    t = time.time()
    try:
        r = subprocess.run(argv, stdout=subprocess.PIPE, stderr=subprocess.PIPE, timeout=tmo, env={'ASAN_OPTIONS': 'detect_leaks=0:exitcode=99'})
        rc, out, err = r.returncode, r.stdout.decode(), r.stderr.decode()
    except subprocess.TimeoutExpired as e:
        rc, out, err = 'TIMEOUT', (e.stdout or b'').decode(), ''
    viol, summ = [], None
    for l in out.splitlines():
        try: d = json.loads(l)
        except Exception: continue
        if d.get('type') == 'violation': viol.append(d)
        elif d.get('type') == 'summary': summ = d
    return c, rc, viol, summ, err[-3000:], time.time() - t

# (backend, start, end, real_end, cluster_bits, geometry_ops)
QUICK = [('rb', 0, 7, 7, 0, 0), ('rb', 1, 7, 8, 1, 0), ('rb', 0, 6, 7, 2, 0), ('rb', 1, 3, 3, 0, 1), ('rb', 0, 2, 3, 0, 1),
         ('rb', 1, 3, 3, 1, 1),
         ('ba', 0, 9, 11, 0, 0), ('ba', 1, 9, 12, 0, 0), ('ba', 1, 7, 8, 2, 0), ('ba', 0, 7, 7, 1, 0), ('ba', 0, 3, 4, 0, 1),
         ('ba', 1, 3, 3, 1, 1),
         ('b32', 1, 9, 11, 0, 0), ('b32', 0, 8, 8, 0, 0), ('b32', 1, 3, 4, 0, 1), ('b32', 0, 3, 3, 0, 1)]
THOROUGH = QUICK + [('rb', 0, 9, 9, 0, 0), ('rb', 1, 8, 9, 0, 0), ('rb', 1, 9, 10, 0, 0), ('rb', 0, 8, 9, 1, 0), ('rb', 1, 8, 8, 2, 0),
                    ('rb', 0, 3, 4, 0, 1), ('rb', 0, 3, 3, 2, 1),
                    ('ba', 0, 15, 15, 0, 0), ('ba', 1, 13, 16, 0, 0), ('ba', 0, 12, 13, 1, 0), ('ba', 1, 12, 12, 2, 0),
                    ('ba', 0, 4, 6, 0, 1), ('ba', 1, 4, 4, 2, 1),
                    ('b32', 0, 15, 15, 0, 0), ('b32', 1, 13, 16, 0, 0), ('b32', 1, 4, 6, 0, 1)]

def cfgid(c):
    return '%s/%d-%d-%d/c%d/g%d' % c

def run_cfg(args):
    exe, c, maxstates, tmo = args
    argv = [exe, c[0], str(c[1]), str(c[2]), str(c[3]), str(c[4] + 4 * c[5]), str(maxstates)]
    t = time.time()
    try:
        r = subprocess.run(argv, stdout=subprocess.PIPE, stderr=subprocess.PIPE, timeout=tmo,
                           env={'ASAN_OPTIONS': 'detect_leaks=0:exitcode=99'})
        rc, out, err = r.returncode, r.stdout.decode(), r.stderr.decode()
    except subprocess.TimeoutExpired as e:
        rc, out, err = 'TIMEOUT', (e.stdout or b'').decode(), ''
    viol, summ = [], None
    for l in out.splitlines():
        try:
            d = json.loads(l)
        except Exception:
            continue
        if d.get('type') == 'violation':
            viol.append(d)
        elif d.get('type') == 'summary':
            summ = d
    return c, rc, viol, summ, err[-3000:], time.time() - t

def main(tier, only=None):
    ck = Check('C16', tier, 'model_checking')
    exe = build_harness()
    cfgs = QUICK if tier == 'quick' else THOROUGH
    maxstates = 1500000 if tier == 'quick' else 6000000
    tmo = 240 if tier == 'quick' else 2400
    # longest first
    res = pmap(run_cfg, [(exe, c, maxstates, tmo) for c in cfgs], chunksize=1)
    closed = 0
    per = {}
    for c, rc, viol, summ, err, dt in res:
        cid = cfgid(c)
        if rc == 'TIMEOUT' or (summ is None and rc == 3):
            ck.add(exhaustive=False)
            per[cid] = {'result': 'not finished (timeout/state cap), nothing claimed', 'wall_s': round(dt, 1)}
            continue
        if rc != 0 or summ is None:
            ck.violation(cid + ':crash', {'config': c, 'exit': rc, 'stderr': err, 'what': 'harness crashed (sanitizer report or fatal signal inside the bitmap code)'})
            continue
        seen = set()
        for v in viol:
            sig = (v['kind'], v['msg'].split(',')[0][:40])
            if sig in seen:
                continue
            seen.add(sig)
            ck.violation(cid + ':' + ';'.join(v['history']), {'config': c, 'ops': v['ops'], 'history': v['history'], 'msg': v['msg'], 'kind': v['kind']})
        ck.add(states=summ['states'], transitions=summ['transitions'], traces_validated_against_impl=summ['transitions'],
               evaluations=summ['transitions'], distinct_nontrivial=summ['states'])
        if summ['closed']:
            closed += 1
        else:
            ck.add(exhaustive=False)
        per[cid] = {'states': summ['states'], 'transitions': summ['transitions'], 'ops_in_alphabet': summ['ops'], 'max_bfs_depth': summ['max_depth'],
                    'closed': summ['closed'], 'violating_transitions': summ['violations'], 'wall_s': round(dt, 1)}
        if 'deepest_history' in summ and len(ck.cov['samples']) < 8:
            ck.add(samples=[{'config': cid, 'history_to_a_deepest_state': summ['deepest_history']}])
    # ---- wide bitmaps: every query range on a family of contents (word-scanning loops, long extent walks)
    wres = pmap(run_wide, [(exe, c, tmo) for c in (WIDE_QUICK if tier == 'quick' else WIDE_THOROUGH)], chunksize=1)
    wide = {}
    for c, rc, viol, summ, err, dt in wres:
        cid = 'wide/%s/start%d/n%d/c%d' % c[:4]
        if rc == 'TIMEOUT':
            ck.add(exhaustive=False); wide[cid] = {'result': 'not finished'}; continue
        if summ is None or rc not in (0, 1):
            ck.violation(cid + ':crash', {'wide': list(c), 'exit': rc, 'stderr': err, 'what': 'wide-bitmap harness crashed (sanitizer report or fatal signal inside the bitmap code)'})
            continue
        seen = set()
        for v in viol:
            sig = (v['query'].split('(')[0], v['content'].split('-')[0])
            if sig in seen: continue
            seen.add(sig)
            ck.violation('%s:%s:%s' % (cid, v['content'], v['query']), {'wide': list(c), 'content': v['content'], 'query': v['query'], 'msg': v['msg']})
        ck.add(evaluations=summ['queries'], transitions=summ['queries'], traces_validated_against_impl=summ['queries'], states=summ['contents'], distinct_nontrivial=summ['contents'])
        wide[cid] = {'contents': summ['contents'], 'queries': summ['queries'], 'violations': summ['violations'], 'wall_s': round(dt, 1)}
    ck.cov['wide_configurations'] = wide
    ck.cov['configurations'] = per
    ck.cov['configurations_closed'] = closed
    ck.add(rule='state = complete private state of the real bitmap object (rbtree shape+colours+cursors+extents / array bytes, end, real_end) plus the '
                'known-mask of the reference; BFS applies every op of the alphabet (every argument in range) to every state until no new state appears '
                '(closure); distinct = distinct canonical states; every transition compares all return values/out-parameters with a uint64 reference set, '
                'decodes the private state against the reference and checks red-black/extent invariants.  Second engine (wide bitmaps of 64..330 elements, unaligned starts, cluster ratios): '
                'contents = full/empty with one exception at every position, with an exception run of 2/63/64/65 at every third position, alternating blocks; each content built by two routes; '
                'every range lo<=hi is queried with find_first_zero, find_first_set, test_clear_range (get_range on a sub-family) and every range is marked/unmarked with a complete read-back')
    ck.assumptions += ['bitmaps of at most 17 elements (small-scope); set_range/get_range start offsets byte-aligned relative to the bitmap start and '
                       'set_range lengths multiples of 8, as every caller in the tree does; padding elements beyond "end" are unconstrained after a resize '
                       '(backends legitimately differ) until set_padding/set_range/clear defines them',
                       'out-of-range arguments are not in the alphabet (they only print a warning)']
    return ck.finish()

def replay(path):
    d = json.load(open(path))['detail']
    exe = build_harness()
    if 'wide' in d:
        c = d['wide']
        r = subprocess.run([exe.replace('bitmapx', 'bitmapw')] + [str(x) for x in c], env={'ASAN_OPTIONS': 'detect_leaks=0:exitcode=99'}, stdout=subprocess.PIPE, text=True)
        print('\n'.join(r.stdout.splitlines()[:5] + r.stdout.splitlines()[-1:]))
        print('replay verdict:', 'VIOLATION reproduced' if r.returncode else 'no violation')
        return 1 if r.returncode else 0
    c = d['config']
    argv = [exe, c[0], str(c[1]), str(c[2]), str(c[3]), str(c[4] + 4 * c[5]), '0', '--replay', ','.join(map(str, d['ops']))]
    r = subprocess.run(argv, env={'ASAN_OPTIONS': 'detect_leaks=0:exitcode=99'})
    print('replay verdict:', 'VIOLATION reproduced' if r.returncode else 'no violation')
    return 1 if r.returncode else 0
