"""C05: e2fsck never alters healthy files (all repair modes, every directory size, every mapping size, summary-only damage)."""
import os, json, re
from vlib.common import *
from vlib import fsweep
from xck.image import Image
from xck import tree as xtree
from xck.check import check as xcheck

MODES = [('-fp',), ('-fy',), ('-fyD',), ('-fy', '-E', 'bmap2extent'), ('-fy', '-E', 'fixes_only')]

def tree_of(data):
    return xtree.tree(Image(data))

def names(seq, n):
    if seq == 'short': return ['n%03d' % i for i in range(n)]
    if seq == 'long':  return ['%s_%04d' % ('W' * 248, i) for i in range(n)]
    if seq == 'mixed': return [('m%d_' % i) + 'x' * ((i * 37) % 200) for i in range(n)]
    if seq == 'case':  return [('Name%03d' if i % 2 else 'name%03d') % (i // 2) for i in range(n)]       # pairs that differ only in case (distinct names unless the directory is case-insensitive)

def job(j):
    kind, cid, base, prep, modes = j
    p = fsweep.worker_path('c5')
    data = fsweep.base_data(base)
    with open(p, 'wb') as f: f.write(data)
    if prep:
        sp = p + '.dbg'
        if prep[0] == 'links':
            seq, n = prep[1], prep[2]
            nml = names(seq, n)
            bs_ = Image(data).bs
            free = [bs_ - 12 - 24]              # first-fit simulation: debugfs ln neither expands the directory nor adjusts the link count
            for x in nml:
                e = (8 + len(x) + 3) & ~3
                for i in range(len(free)):
                    if free[i] >= e: free[i] -= e; break
                else:
                    free.append(bs_ - 12 - e)
            k = len(free)
            open(sp, 'w').write('mkdir /T\n' + 'expand_dir /T\n' * k + ''.join('ln /one /T/%s\n' % nm for nm in nml) + 'sif /one links_count %d\n' % (2 + n))
        elif prep[0] == 'file':
            nblk, bs = prep[1], prep[2]
            src = p + '.src'
            with open(src, 'wb') as f: f.write(bytes(((i * 11 + nblk) & 0xff) for i in range(64)) * (nblk * bs // 64))
            open(sp, 'w').write('write %s /Tfile\n' % src)
        elif prep[0] == 'symlinks':
            # symlinks of every target length lo..hi, each carrying an extended attribute (small inodes put it into an external block): the
            # fast/slow symlink decision depends on i_size, i_blocks and the xattr block together
            lo, hi, big = prep[1], prep[2], prep[3]
            cmds = ['mkdir /SL']
            for n in range(lo, hi + 1):
                cmds.append('symlink /SL/l%03d %s' % (n, 't' * n))
                cmds.append('ea_set /SL/l%03d user.k %s' % (n, 'v' * (200 if big else 12)))
            open(sp, 'w').write('\n'.join(cmds) + '\n')
        elif prep[0] == 'xattrs':
            # files carrying one attribute of every value length in the list (plus, optionally, a second small one): the in-inode area and the external
            # block pass through "exactly full", "4 bytes left", ... "does not fit" -- all of them legal layouts that e2fsck must leave alone
            Ls, second = prep[1], prep[2]
            cmds = ['mkdir /XA']
            for L in Ls:
                cmds.append('write /dev/null /XA/f%04d' % L)
                if second: cmds.append('ea_set /XA/f%04d user.bb %s' % (L, 'w' * second))
                cmds.append('ea_set /XA/f%04d user.a %s' % (L, 'v' * L))
            open(sp, 'w').write('\n'.join(cmds) + '\n')
        elif prep[0] == 'pattern':
            pat, bs = prep[1], prep[2]
            src = p + '.src'; gar = p + '.gar'
            with open(gar, 'wb') as f: f.write(b'\xa5' * (150 * bs))
            with open(src, 'wb') as f:
                for i in range(len(pat) + 1):
                    f.write(bytes(((k * 13 + i) & 0xff) | 1 for k in range(bs)))
            # a dense file is written first (physically contiguous), then single blocks are punched out (hole) or punched and preallocated again
            # (unwritten extent; the allocator hands the just-freed block back, so unwritten and written extents end up logically AND physically adjacent
            # and the unwritten block still holds the old bytes: an e2fsck that merges them changes what the file reads)
            open(sp, 'w').write('write %s /G\nrm /G\nwrite %s /Tpat\n' % (gar, src) +
                                ''.join('punch /Tpat %d %d\n' % (i, i) + ('fallocate /Tpat %d %d\n' % (i, i) if ch == 'U' else '') for i, ch in enumerate(pat) if ch != 'W'))
        rc, out = run([DEBUGFS, '-w', '-f', sp, p], timeout=60)
        with open(p, 'rb') as f: data = f.read()
        rc0, out0 = run([E2FSCK, '-fn', p], timeout=30)
        if rc0 != 0 and Image(data).ro & 0x100:
            # debugfs does not maintain the quota files: let e2fsck settle the usage once, the repair modes then start from that image
            run([E2FSCK, '-fy', p], timeout=60)
            with open(p, 'rb') as f: data = f.read()
            rc0, out0 = run([E2FSCK, '-fn', p], timeout=30)
        if rc0 != 0:
            # the image was prepared with debugfs from a clean corpus image; if the independent checker finds it consistent, an e2fsck that
            # complains about it is itself the violation (a healthy filesystem must check clean), otherwise the preparation went wrong
            try: vv = xcheck(data)
            except Exception as e: vv = [('S', 'unreadable', repr(e))]
            if not vv:
                cls = ''
                if prep[0] == 'symlinks' and Image(data).incompat & 0x8000 and 'Block bitmap differences:  -' in out0 and not re.search(r'^(Inode|Entry|Symlink|Extended|Directory) ', out0, re.M):
                    cls = '[e2fsck-skips-accounting-of-inline-data-symlinks] '
                return (cid, 'bad', [('-fn', cls + 'e2fsck -fn exits %s on a prepared filesystem that the independent checker finds consistent' % rc0, out0[-300:])], 1)
            return (cid, 'skip', 'prepared image not clean (%s): %s' % (rc0, out0[-200:]), 0)
    elif kind == 'd':
        data = fsweep.make_multi(base, j[3 + 2] if False else cid[1])
    try:
        before = tree_of(data)
    except Exception as e:
        return (cid, 'skip', 'tree of the input not readable by xck: %r' % e, 0)
    bad = []; n = 0
    for m in modes:
        with open(p, 'wb') as f: f.write(data)
        rc, out = run([E2FSCK] + list(m) + [p], timeout=60)
        n += 1
        with open(p, 'rb') as f: after = f.read()
        if rc not in (0, 1):
            bad.append((' '.join(m), 'exit status %s' % rc, out[-400:])); continue
        try:
            d = xtree.diff(before, tree_of(after))
        except Exception as e:
            d = ['result not readable by xck: %r' % e]
        if d:
            bad.append((' '.join(m), 'files changed', d[:6])); continue
        if kind == 'd':
            rc2, out2 = run([E2FSCK, '-fn', p], timeout=30)
            v = xcheck(after) if rc2 == 0 else []
            if rc2 != 0 or v:
                bad.append((' '.join(m), 'not consistent after repair', [rc2, out2[-300:], v[:4]]))
    return (cid if kind != 'd' else cid[0], 'bad' if bad else 'ok', bad, n)

def bigext_job(j):
    """(h) extents at the length limits of the format: initialised extents hold at most 32768 blocks, unwritten ones 32767.  A healthy filesystem with written and
    preallocated runs just below / at / above those limits (and a few punched gaps so that e2fsck finds the extent trees worth rebuilding) x repair mode."""
    cid, feat, mode = j
    w = fsweep.scratch_worker(); p = os.path.join(w, 'c5big.img'); src = os.path.join(w, 'c5big.src')
    for f in (p,):
        if os.path.exists(f): os.unlink(f)
    rc, out = run([MKE2FS, '-q', '-F', '-t', 'ext4', '-O', '^has_journal,^resize_inode,sparse_super2,' + feat, '-b', '1024', '-N', '64', '-U', '6b33f586-a183-4383-921d-30ab132db9b9',
                   '-G', '256', '-E', 'hash_seed=a0c4b9f1-7e1d-4c6b-8f4e-9d2f1b3c5a70,lazy_itable_init=1,nodiscard,packed_meta_blocks=1,num_backup_sb=0', p, '300M'], timeout=120)   # all metadata in front: free space is one run across the groups
    if rc != 0: return (cid, 'skip', 'mke2fs failed', 0)
    with open(src, 'wb') as f:
        blk = bytes(range(256)) * 4
        for i in range(32768 + 5): f.write(blk[i % 7:] + blk[:i % 7])
    cmds = ['write /dev/null /U%s' % x for x in ('', '1', '2', '3', '4', '5')] + ['write %s /W' % src,                                           # 32773 written blocks: two initialised extents when contiguous
            'fallocate /U 0 39999', 'fallocate /U 40010 40020', 'fallocate /U 40030 40040', 'punch /U 40010 40020', 'punch /U 40030 40040',
            'fallocate /U1 0 32766', 'fallocate /U2 0 32767', 'fallocate /U3 0 65534', 'fallocate /U4 5 32771', 'punch /U4 100 100',
            'fallocate /U5 0 32767', 'fallocate /U5 32768 65535', 'punch /U5 70000 70001']
    sp = p + '.dbg'; open(sp, 'w').write('\n'.join(cmds) + '\n')
    run([DEBUGFS, '-w', '-f', sp, p], timeout=300)
    os.unlink(src)
    if run([E2FSCK, '-fn', p], timeout=300)[0] != 0: return (cid, 'skip', 'prepared image not clean', 0)
    def summary():
        # debugfs view of every file: size, i_blocks and the extent list condensed to (logical start, length, uninit) runs
        o = []
        for f_ in ('W', 'U', 'U1', 'U2', 'U3', 'U4', 'U5'):
            rc, st = run([DEBUGFS, '-R', 'stat /%s' % f_, p], timeout=120)
            m = re.search(r'Size: (\d+)', st); b = re.search(r'Blockcount: (\d+)', st)
            rc, ex = run([DEBUGFS, '-R', 'dump_extents -l /%s' % f_, p], timeout=120)
            blocks = 0; runs = []
            for l in ex.splitlines():
                q = l.split()
                if len(q) >= 7 and q[0].count('/') == 1 and q[1].count('/') == 0 and '-' in l:
                    mm = re.search(r'(\d+)\s*-\s*(\d+)\s+(\d+)\s*-\s*(\d+)\s+(\d+)\s*(Uninit)?', l)
                    if mm:
                        lo, hi, un = int(mm.group(1)), int(mm.group(2)), bool(mm.group(6))
                        if runs and runs[-1][1] + 1 == lo and runs[-1][2] == un: runs[-1][1] = hi
                        else: runs.append([lo, hi, un])
            rc, md = run([DEBUGFS, '-R', 'dump /%s %s.out' % (f_, p), p], timeout=300)
            import hashlib
            h = hashlib.sha1()
            try:
                with open(p + '.out', 'rb') as ff:
                    while True:
                        x = ff.read(1 << 20)
                        if not x: break
                        h.update(x)
                os.unlink(p + '.out')
            except OSError: pass
            # (i_blocks is not compared: it legitimately shrinks when e2fsck rebuilds an extent tree into fewer tree blocks; the property lists size and content)
            o.append((f_, m.group(1) if m else None, [tuple(r) for r in runs], h.hexdigest()))
        return o
    before = summary()
    if max(hi - lo + 1 for x in before for lo, hi, un in x[2]) < 32767 and 'bigalloc' not in feat:
        return (cid, 'bad', [(' '.join(mode), 'preparation failed: no run of 32767 blocks was produced (vacuous)', [str(x)[:200] for x in before][:3])], 0)
    if any(not x[2] for x in before): return (cid, 'bad', [(' '.join(mode), 'preparation failed: a file has no extents (vacuous)', [str(x)[:200] for x in before if not x[2]][:2])], 0)
    rc, out = run([E2FSCK] + list(mode) + [p], timeout=600)
    bad = []
    if rc not in (0, 1): bad.append((' '.join(mode), 'exit status %s' % rc, out[-400:]))
    else:
        after = summary()
        if after != before:
            d = [(a, b) for a, b in zip(before, after) if a != b]
            bad.append((' '.join(mode), 'files changed', [str(x)[:300] for x in d[:2]]))
        rc2, out2 = run([E2FSCK, '-fn', p], timeout=300)
        if rc2 != 0: bad.append((' '.join(mode), 'not consistent after repair', [rc2, out2[-300:]]))
    os.unlink(p)
    return (cid, 'bad' if bad else 'ok', bad, 2)

def csumspread_job(j):
    """(i) checksum-only damage of several inodes, never more than half of the inodes of one inode-table block (one per block in k consecutive blocks):
    e2fsck -fy must repair the checksums and keep every file"""
    cid, name, inos = j
    from xck.image import Image
    d = bytearray(fsweep.base_data(name)); im = Image(bytes(d))
    for ino in inos:
        loc = im.inode_loc(ino); d[loc + 0x7C] ^= 0x01            # i_checksum_lo (osd2)
    p = fsweep.worker_path('c5i')
    with open(p, 'wb') as f: f.write(d)
    try: before = tree_of(fsweep.base_data(name))
    except Exception as e: return (cid, 'skip', str(e), 0)
    rc, out = run([E2FSCK, '-fy', p], timeout=60)
    bad = []
    if rc not in (0, 1): bad.append(('-fy', 'exit status %s' % rc, out[-300:]))
    else:
        after = open(p, 'rb').read()
        try: dd = xtree.diff(before, tree_of(after))
        except Exception as e: dd = ['result not readable: %r' % e]
        if dd: bad.append(('-fy', 'files changed', dd[:5]))
        rc2, out2 = run([E2FSCK, '-fn', p], timeout=30)
        if rc2 != 0: bad.append(('-fy', 'not consistent after repair', [rc2, out2[-300:]]))
    return (cid, 'bad' if bad else 'ok', bad, 2)

def linkmax_job(j):
    """(j) a healthy directory whose link count sits at / next to EXT2_LINK_MAX (65000): e2fsck must leave the count, the entries and the sub-directories alone"""
    cid, prep, mode = j
    import lzma
    p = fsweep.worker_path('c5j')
    with open(p, 'wb') as f: f.write(lzma.decompress(open(os.path.join(VERIF, 'corpus', 'links65000.img.xz'), 'rb').read()))
    for c_ in prep: run([DEBUGFS, '-w', '-R', c_, p], timeout=120)
    def snap():
        im = Image(open(p, 'rb').read()); r = {n: i for n, i, ft, l in im.read_dir(im.inode(2))}
        I = im.inode(r[b'big']); ents = sorted((n, i) for n, i, ft, l in im.read_dir(I))
        import hashlib
        return (I.i_links_count, len(ents), hashlib.sha1(repr(ents).encode()).hexdigest()[:12], im.inode(2).i_links_count, im.inode(ents[len(ents) // 2][1]).i_links_count)
    rc0, out0 = run([E2FSCK, '-fn', p], timeout=120)
    if rc0 != 0:
        # the image is a committed, validated one (plus at most one debugfs mkdir/rmdir): an e2fsck that complains about it is the violation
        return (cid, 'bad', [('-fn', 'e2fsck -fn exits %s on a healthy filesystem' % rc0, out0[-300:])], 1)
    before = snap()
    rc, out = run([E2FSCK] + list(mode) + [p], timeout=300)
    bad = []
    if rc not in (0, 1): bad.append((' '.join(mode), 'exit status %s' % rc, out[-300:]))
    else:
        after = snap()
        if after != before: bad.append((' '.join(mode), 'files changed', ['(links of /big, entries, digest of (name, inode) pairs, root links, links of a sub-directory): %s -> %s' % (before, after), out[-300:]]))
        rc2, out2 = run([E2FSCK, '-fn', p], timeout=120)
        if rc2 != 0: bad.append((' '.join(mode), 'not consistent after repair', [rc2, out2[-300:]]))
    os.unlink(p)
    return (cid, 'bad' if bad else 'ok', bad, 2)

def djob(j):
    mid, base, parts = j
    p = fsweep.worker_path('c5d')
    data = fsweep.make_multi(base, parts)
    try:
        before = tree_of(fsweep.base_data(base))
    except Exception as e:
        return (mid, 'skip', str(e), 0)
    with open(p, 'wb') as f: f.write(data)
    rc, out = run([E2FSCK, '-fy', p], timeout=60)
    if rc == 8 and 'could not be read' in out:
        # primary superblock unusable and the corpus uses a non-default group size, so e2fsck cannot guess the backup: name it (documented usage)
        im = Image(fsweep.base_data(base))
        with open(p, 'wb') as f: f.write(data)
        rc, out = run([E2FSCK, '-fy', '-b', str(im.group_first_block(1)), '-B', str(im.bs), p], timeout=60)
    with open(p, 'rb') as f: after = f.read()
    if rc == 8 and Image(fsweep.base_data(base)).groups == 1 and re.search(r'[Ss]uperblock|zero-length partition', out):
        # a single-group filesystem has no backup superblock: with a damaged primary superblock (checksum) e2fsck has nothing to fall back on
        return (mid, 'skip', 'no backup superblock exists', 1)
    if rc not in (0, 1):
        return (mid, 'bad', [('-fy', 'exit status %s' % rc, out[-400:])], 1)
    try:
        d = xtree.diff(before, tree_of(after))
    except Exception as e:
        d = ['result not readable by xck: %r' % e]
    if d:
        return (mid, 'bad', [('-fy', 'files changed by a repair of summary-only damage', d[:6])], 1)
    rc2, out2 = run([E2FSCK, '-fn', p], timeout=30)
    if rc2 != 0:
        return (mid, 'nonconv', [('-fy', 'second run not clean', [rc2, out2[-300:]])], 2)
    return (mid, 'ok', [], 2)

def summary_field(f):
    o = f.obj
    if o.startswith('bb') or o.startswith('ib'): return True
    if o.startswith('gd') and f.name in ('bg_free_blocks_count_lo', 'bg_free_inodes_count_lo', 'bg_used_dirs_count_lo', 'bg_flags', 'bg_itable_unused_lo', 'bg_checksum',
                                         'bg_block_bitmap_csum_lo', 'bg_inode_bitmap_csum_lo', 'bg_free_blocks_count_hi', 'bg_free_inodes_count_hi', 'bg_used_dirs_count_hi',
                                         'bg_itable_unused_hi', 'bg_block_bitmap_csum_hi', 'bg_inode_bitmap_csum_hi'): return True
    if o == 'sb' and f.name in ('s_free_blocks_count_lo', 's_free_inodes_count', 's_checksum', 's_free_blocks_count_hi'): return True
    if f.klass == 'csum': return True
    return False

def main(tier, only=None):
    global E2FSCK, DEBUGFS, MKE2FS
    ck = Check('C05', tier, 'model_checking')
    E2FSCK = tool('e2fsck'); DEBUGFS = tool('debugfs'); MKE2FS = tool('mke2fs'); fsweep.init_scratch()
    quick = tier == 'quick'
    parts = only or ['a', 'b', 'c', 'd', 'e', 'f', 'g', 'h', 'i', 'j']
    jobs = []
    if 'a' in parts:
        for b in fsweep.SWEEP_BASES + ['needsrec']:
            jobs.append(('a', 'a/%s' % b, b, None, MODES))
    if 'b' in parts:
        Ns = range(0, 401) if not quick else list(range(0, 120)) + list(range(120, 401, 7))
        for base in (['ext2dx', 'ext4csum'] if quick else ['ext2', 'ext2dx', 'ext4csum', 'inline', 'bigalloc']):
            for seq in (['short', 'long'] if quick else ['short', 'long', 'mixed']):
                for n in Ns:
                    if seq == 'long' and n > 330: continue
                    jobs.append(('b', 'b/%s/%s/n%d' % (base, seq, n), base, ('links', seq, n), MODES if (not quick or n % 3 == 0) else [('-fyD',)]))
        # a filesystem with the casefold feature whose directories are ordinary ones: names that differ only in case are different names there
        for seq in ('case', 'short'):
            for n in (range(0, 200) if not quick else list(range(0, 40)) + list(range(40, 200, 9))):
                jobs.append(('b', 'b/casefold/%s/n%d' % (seq, n), 'casefold', ('links', seq, n), MODES if (not quick or n % 3 == 0) else [('-fyD',)]))
    if 'c' in parts:
        for base, bs in (('ext2', 1024), ('ext3', 1024)) if not quick else (('ext2', 1024),):
            for nblk in (range(0, 301) if not quick else list(range(0, 30)) + list(range(30, 301, 6)) + [267, 268, 269, 270]):
                jobs.append(('c', 'c/%s/blocks%d' % (base, nblk), base, ('file', nblk, bs), [('-fy', '-E', 'bmap2extent'), ('-fyD',)]))
    if 'f' in parts:
        for base in (['ext2', 'ext4csum', 'eashare'] if quick else ['ext2', 'ext2dx', 'ext3', 'ext4', 'ext4csum', 'inline', 'eashare', 'bs4k', 'quota']):
            for big in (False, True):
                jobs.append(('f', 'f/%s/symlinks1-120%s' % (base, '+bigea' if big else ''), base, ('symlinks', 1, 120, big), MODES))
    if 'g' in parts:
        for base, bs_ in ((('ext2', 1024), ('ext4csum', 1024), ('eashare', 1024)) if quick else (('ext2', 1024), ('ext3', 1024), ('ext4csum', 1024), ('eashare', 1024), ('inline', 1024), ('quota', 1024), ('bs4k', 4096), ('eainode', 1024))):
            cap = bs_ - 32 - 4
            allL = list(range(0, 130 if quick else 260)) + list(range(cap - (110 if quick else 200), cap - 8))
            for second in (0, 9):
                for i in range(0, len(allL), 20):
                    Ls = allL[i:i + 20]
                    jobs.append(('g', 'g/%s/xattr-len%d-%d%s' % (base, Ls[0], Ls[-1], '+second' if second else ''), base, ('xattrs', Ls, second), MODES))
    if 'e' in parts:
        import itertools
        for base, bs_, n in ((('ext4csum', 1024, 4),) if quick else (('ext4csum', 1024, 6), ('ext4', 1024, 6), ('bigalloc', 1024, 6), ('bs4k', 4096, 5))):
            for pat in itertools.product('HWU', repeat=n):
                pat = ''.join(pat)
                jobs.append(('e', 'e/%s/%s' % (base, pat), base, ('pattern', pat, bs_), MODES))
    hjobs = []
    if 'h' in parts:
        for feat in (('metadata_csum',) if quick else ('metadata_csum', '^metadata_csum', 'bigalloc')):
            for m in MODES:
                hjobs.append(('h/%s/long-extents :: %s' % (feat, ' '.join(m)), feat, m))
    ijobs = []
    if 'i' in parts:
        from vlib import geom
        from xck.image import Image as _Im
        for name in geom.build_geom(quick):
            if 'u_itb' in name: continue          # needs metadata_csum
            im_ = _Im(fsweep.base_data(name)); ipb = im_.bs // im_.inode_size
            if im_.itb_per_group < 3: continue
            for g in (0, 1, 2):
                for b0 in (0, 1, 2, 5):
                    for k in range(2, 9):
                        if b0 + k > im_.itb_per_group: continue
                        for pos in (0, ipb - 1) if quick else range(ipb):
                            inos = [g * im_.ipg + (b0 + t) * ipb + pos + 1 for t in range(k)]
                            if min(inos) < im_.first_ino: continue
                            ijobs.append(('i/%s/g%d/blk%d+%d/pos%d' % (name, g, b0, k, pos), name, inos))
    jjobs = []
    if 'j' in parts and os.path.exists(os.path.join(VERIF, 'corpus', 'links65000.img.xz')):
        # (one more sub-directory is not offered: debugfs mkdir counts the parent's links past EXT2_LINK_MAX instead of applying the dir_nlink rule, so that
        # image would not be a healthy one by e2fsck's own standard)
        for tag, prep in ((('65000', []),) if quick else (('65000', []), ('64999', ['rmdir /big/d7']), ('64998', ['rmdir /big/d7', 'rmdir /big/d9']))):
            for m in MODES:
                jjobs.append(('j/links%s :: %s' % (tag, ' '.join(m)), prep, m))
    jres = pmap(linkmax_job, jjobs, chunksize=1) if jjobs else []
    ires = pmap(csumspread_job, ijobs, chunksize=4) if ijobs else []
    hres = pmap(bigext_job, hjobs, chunksize=1) if hjobs else []
    res = pmap(job, jobs, chunksize=2)
    runs = 0; skipped = 0
    for (cid, st, bad, n), j in zip(jres, jjobs):
        runs += n
        if st == 'skip': skipped += 1; continue
        for mode, what, det in (bad or []):
            ck.violation('%s' % cid, {'case': cid, 'prep': j[1], 'mode': mode, 'what': what, 'detail': det})
    for (cid, st, bad, n), j in zip(ires, ijobs):
        runs += n
        if st == 'skip': skipped += 1; continue
        for mode, what, det in (bad or []):
            ck.violation('%s' % cid, {'case': cid, 'base': j[1], 'damaged_inode_checksums': j[2], 'mode': mode, 'what': what, 'detail': det})
    for (cid, st, bad, n), j in zip(hres, hjobs):
        runs += n
        if st == 'skip': skipped += 1; log('C05 (h): %s skipped: %s' % (cid, bad)); continue
        for mode, what, det in (bad or []):
            ck.violation('%s' % cid, {'case': cid, 'mode': mode, 'what': what, 'detail': det})
    for (cid, st, bad, n), j in zip(res, jobs):
        runs += n
        if st == 'skip': skipped += 1; continue
        for mode, what, det in (bad or []):
            m = re.match(r'\[([a-z0-9-]+)\] ', what)
            ck.violation('%s :: e2fsck %s' % (cid, mode), {'case': cid, 'base': j[2], 'prep': j[3], 'mode': mode, 'what': what, 'detail': det, 'root_cause_class': m.group(1) if m else None})
    ck.part('abc_healthy_images', jobs=len(jobs), e2fsck_runs=runs, skipped_because_prepared_image_not_clean=skipped)
    ndj = 0
    if 'd' in parts:
        c01known, _ = load_known_cases('C01')
        dj = []
        for base in (fsweep.QUICK_BASES if quick else fsweep.SWEEP_BASES):
            for mid, off, size, v, seal in fsweep.mutant_list(base, fields_filter=summary_field):
                dj.append((mid, base, [(off, size, v, seal)]))
        res = pmap(djob, dj, chunksize=16)
        for (mid, st, bad, n), j in zip(res, dj):
            runs += n; ndj += 1
            if st == 'skip': continue
            if st == 'nonconv' and mid in c01known:
                continue            # the non-convergence itself is C01's recorded finding; files were preserved here
            for mode, what, det in (bad or []):
                cls = None
                if re.search(r'/gd\d+\.bg_flags=0x[0-9a-f]*[13579bdf](\+seal)?$', mid) and what.startswith('files changed'):
                    cls = 'inode-uninit-flag-trusted'
                ck.violation('d/%s' % mid, {'base': j[1], 'parts': j[2], 'what': what, 'detail': det, 'root_cause_class': cls})
        ck.part('d_summary_only_damage', mutants=ndj)
    ck.add(evaluations=runs, distinct_nontrivial=len(jobs) + ndj, states=len(jobs) + ndj, transitions=runs, traces_validated_against_impl=runs,
           rule='(a) every corpus image x 5 repair modes; (b) test directory holding the first n of a fixed name sequence (hard links), every n in 0..400, 2-3 sequences (short, 252-byte, mixed lengths), '
                'on linear/indexed/csum/inline/bigalloc bases x modes, plus names differing only in case in ordinary directories of a casefold-feature filesystem; (c) a file of every block count 0..300 x {bmap2extent, -D}; (i) on the geometry family (inode tables of 3..18 blocks, every inode in use): the checksum of one inode per inode-table block damaged in 2..8 consecutive blocks (never more than half of a block), e2fsck -fy must keep every file and leave a clean filesystem; (j) a directory with exactly 64998 sub-directories (link count 65000, the maximum before the dir_nlink overflow rule; thorough also 64999 and the overflow case) x 5 repair modes; (h) a 300 MiB filesystem whose files have written and preallocated runs of 32766..65535 blocks (extent length limits 32768 / 32767) with punched gaps x 5 repair modes, second run clean; (g) files with one attribute of every value length 0..130 and capacity-110..capacity of the external block (with and without a second attribute), i.e. every fill level of the in-inode area and of the block; (e) a file whose first n blocks are every pattern over {hole, written, unwritten(preallocated)} (quick n=4, thorough n=6; free space pre-filled with stale bytes) x modes; (f) a directory of symlinks of every target length 1..120, each with a small or a 200-byte extended attribute, on bases with 128- and 256-byte inodes x modes; (d) every single-field mutant of bitmap bits, counts, flags and checksum fields '
                'x e2fsck -fy.  Oracle: exit in {0,1} and xck.tree (path,type,bytes,size,mode,owner,nlink,target,xattrs) identical before/after; (d) also second run clean',
           samples=[j[1] for j in jobs[:2]] + [j[1] for j in jobs[-2:]])
    ck.assumptions += ['xck.tree is the observer of "files" (independent reader); casefold/encrypted directories not in scope']
    return ck.finish()

def replay(path):
    d = json.load(open(path)); print(json.dumps(d['detail'], indent=1)[:3000]); return 1
