"""C12: an undo file restores the exact previous bytes.

(b) every chain (depth <= 2 quick / 3 thorough) of undo-recording tool runs appending to one undo file, on several devices (block sizes, odd device
    lengths, filesystem offset): e2undo must make the device byte-identical, over its original length, to the state before the first recorded run;
    e2undo -n must not write; an unfinished recording (UNDO_IO_SIMULATE_UNFINISHED) restores everything and only marks the filesystem for checking.
(c) every single-bit flip (quick: one bit per byte) of an undo file: e2undo either refuses (non-zero exit, device untouched) or restores exactly."""
import os, json, re, struct, shutil, hashlib, itertools
from vlib.common import *
from vlib import fsweep

U2 = '11111111-2222-3333-4444-555555555555'
def ops_for(dev):
    """menu of recording runs; {d} device, {u} undo file"""
    T, R, F, D, M = TOOL['tune2fs'], TOOL['resize2fs'], TOOL['e2fsck'], TOOL['debugfs'], TOOL['mke2fs']
    m = [
        ('tune2fs -L', [T, '-z', '{u}', '-L', 'lbl', '{d}']),
        ('tune2fs -U', [T, '-z', '{u}', '-f', '-U', U2, '{d}']),
        ('tune2fs csum toggle', [T, '-z', '{u}', '-O', '{csum}', '{d}']),
        ('tune2fs -I 256', [T, '-z', '{u}', '-I', '256', '{d}']),
        ('tune2fs journal toggle', [T, '-z', '{u}', '-O', '{jnl}', '-J', 'size=1', '{d}']),
        ('tune2fs -O extent -r', [T, '-z', '{u}', '-O', 'extent', '-r', '30', '{d}']),
        ('resize2fs grow', [R, '-z', '{u}', '-f', '{d}', '{grow}']),
        ('resize2fs shrink', [R, '-z', '{u}', '-f', '{d}', '{shrink}']),
        ('resize2fs -M', [R, '-z', '{u}', '-f', '-M', '{d}']),
        ('e2fsck -fyD', [F, '-z', '{u}', '-fyD', '{d}']),
        ('e2fsck -fy bmap2extent', [F, '-z', '{u}', '-fy', '-E', 'bmap2extent', '{d}']),
        ('e2fsck -fy -E discard', [F, '-z', '{u}', '-fy', '-E', 'discard', '{d}']),           # discards every free range through the undo manager
        ('debugfs write', [D, '-w', '-z', '{u}', '-R', 'write {payload} /undo_new', '{d}']),
        ('debugfs fill', [D, '-w', '-z', '{u}', '-R', 'write {big} /undo_big', '{d}']),
        ('debugfs rm+mkdir', [D, '-w', '-z', '{u}', '-f', '{script}', '{d}']),
        ('debugfs damage+', [D, '-w', '-z', '{u}', '-R', 'sif /one links_count 7', '{d}']),
        # more keys than one key block of the undo file holds (63 with 1 KiB undo blocks): 150 scattered single blocks are overwritten
        ('debugfs zap 150 scattered blocks', [D, '-w', '-z', '{u}', '-f', '{zap}', '{d}']),
        ('resize2fs grow x6', [R, '-z', '{u}', '-f', '{d}', '{grow6}']),
        ('mke2fs ext2', [M, '-q', '-F', '-z', '{u}', '-t', 'ext2', '-b', '1024', '-U', U2, '{d}']),
        ('mke2fs ext4 4k', [M, '-q', '-F', '-z', '{u}', '-t', 'ext4', '-b', '4096', '-O', '^has_journal', '-U', U2, '{d}']),
        ('mke2fs ext4 1k journal', [M, '-q', '-F', '-z', '{u}', '-t', 'ext4', '-b', '1024', '-J', 'size=1', '-U', U2, '{d}']),
    ]
    return m

def fs_args(p):
    """substitutions that depend on the current filesystem on the device (csum on/off, journal on/off, sizes)"""
    from xck.image import Image
    a = {'csum': 'metadata_csum', 'jnl': 'has_journal', 'grow': '0', 'shrink': '0', 'grow6': '0'}
    try:
        d = open(p, 'rb').read()
        off = OFFSET.get(os.path.basename(p), 0)
        im = Image(d[off:])
        a['csum'] = '^metadata_csum' if im.has_csum else 'metadata_csum'
        a['jnl'] = '^has_journal' if im.compat & 4 else 'has_journal'
        a['grow'] = str(im.blocks_count + im.bpg // 2 + 3); a['grow6'] = str(im.blocks_count * 6 + 5)
        a['shrink'] = str(max(im.blocks_count - im.bpg // 2 - 3, 64))
    except Exception:
        pass
    return a

OFFSET = {}
def run_chain(j):
    devname, chain, unfinished, mode = j
    orig = DEVS[devname]
    w = fsweep.scratch_worker()
    p = os.path.join(w, devname); u = os.path.join(w, 'undo.e2undo')
    for x in (p, u):
        if os.path.exists(x): os.unlink(x)
    with open(p, 'wb') as f: f.write(orig)
    off = OFFSET.get(devname, 0)
    dev_arg = p if not off else '%s?offset=%d' % (p, off)
    ref = orig; log_ = []; ino = None; recorded = 0; units = set()
    for i, label in enumerate(chain):
        argv = dict(OPS)[label]
        a = fs_args(p); a.update({'d': dev_arg, 'u': u, 'payload': PAYLOAD, 'big': BIG, 'script': SCRIPT, 'zap': ZAP})
        if 'mke2fs' in label and off: a['d'] = p; argv = argv[:-1] + ['-E', 'offset=%d' % off, '{d}', '%dk' % ((len(orig) - off) // 1024)]
        elif 'mke2fs' in label: argv = argv + ['%dk' % (len(orig) // 1024)]
        argv = [x.format(**a) for x in argv]
        before = open(p, 'rb').read()
        env = tool_env({'E2FSPROGS_UNDO_DIR': '/nonexistent'})
        if unfinished and i == len(chain) - 1: env['UNDO_IO_SIMULATE_UNFINISHED'] = '1'
        rc, out = run(argv, timeout=120, env=env)
        log_.append((label, rc))
        cur_ = open(p, 'rb').read()
        if len(cur_) < len(before):
            # resize2fs truncates an image *file* when it shrinks the filesystem; a block device keeps its length and the bytes beyond the new
            # end of the filesystem stay what they were (nobody writes them).  Emulate the device.
            with open(p, 'ab') as f: f.write(before[len(cur_):])
        if rc != 0 and open(p, 'rb').read() == before and os.path.exists(u) and ino is None:
            os.unlink(u)                # the run refused/failed before touching the device: nothing was recorded, nothing to undo
        bsz = int(re.search(r'-b (\d+)', ' '.join(argv)).group(1)) if 'mke2fs' in label else struct.unpack_from('<I', before, off + 1024 + 0x18)[0]
        if 'mke2fs' not in label: bsz = 1024 << bsz if bsz < 8 else 0
        if os.path.exists(u): units.add(bsz)
        if os.path.exists(u):
            st = os.stat(u)
            if ino is not None and st.st_ino != ino:
                ref = before            # the tool started a new undo file: the reference is the state before this run
            ino = st.st_ino
            recorded += 1
        elif open(p, 'rb').read() != before and ino is None:
            ref = None                  # device modified but nothing recorded yet: nothing to assert for this prefix
    if not os.path.exists(u) or ref is None:
        return (devname, chain, 'no-undo-file', [], log_)
    bad = []
    cur = open(p, 'rb').read()
    # e2undo -n never writes
    rc, out = run([TOOL['e2undo'], '-n', u, p] if not off else [TOOL['e2undo'], '-n', '-o', str(off), u, p], timeout=60)
    if open(p, 'rb').read() != cur: bad.append('e2undo -n modified the device')
    rc, out = run([TOOL['e2undo'], u, p] if not off else [TOOL['e2undo'], '-o', str(off), u, p], timeout=60)
    after = open(p, 'rb').read()
    n = len(ref)
    if rc != 0:
        bad.append('e2undo exits %s on an undamaged undo file: %s' % (rc, out[-300:]))
    else:
        a2 = bytearray(after[:n]); r2 = bytearray(ref)
        abnormal = any(rc_ != 0 and not ('e2fsck' in l_ and rc_ == 1) for l_, rc_ in log_)
        if unfinished or abnormal:
            # a recording run ended abnormally (simulated, or the tool exited with an error after it had started): only the "needs check" marking may differ: s_state in the primary superblock (and the superblock checksum that covers it)
            sbo = off + 1024
            for o, l in ((0x3A, 2), (0x3FC, 4)):
                a2[sbo + o:sbo + o + l] = r2[sbo + o:sbo + o + l]
        if bytes(a2) != bytes(r2):
            diff = [i for i in range(0, n, 512) if a2[i:i + 512] != r2[i:i + 512]]
            cls = '[undo-keys-in-mixed-block-units] ' if len(units) > 1 else ''
            bad.append(cls + 'after e2undo the device differs from its state before the first recorded run in %d sectors (first at byte %d, last at byte %d)' % (len(diff), diff[0], diff[-1]))
    # e2undo can itself record to an undo file (-z): undoing the undo must bring back the state before it, also when the first undo file was unfinished
    if not bad:
        u2 = os.path.join(w, 'undo2.e2undo')
        if os.path.exists(u2): os.unlink(u2)
        with open(p, 'wb') as f: f.write(cur)
        env = tool_env({'E2FSPROGS_UNDO_DIR': '/nonexistent'})
        rc, out = run([TOOL['e2undo'], '-z', u2, u, p] if not off else [TOOL['e2undo'], '-o', str(off), '-z', u2, u, p], timeout=60, env=env)
        mid = open(p, 'rb').read()
        if rc != 0 or mid[:n] != after[:n]:
            bad.append('e2undo -z: exit %s, or a different result than e2undo without -z' % rc)
        elif os.path.exists(u2):
            rc, out = run([TOOL['e2undo'], u2, p] if not off else [TOOL['e2undo'], '-o', str(off), u2, p], timeout=60, env=env)
            back = open(p, 'rb').read()
            if rc != 0:
                bad.append('undoing the undo (e2undo of the file recorded by e2undo -z) exits %s: %s' % (rc, out[-200:]))
            elif back[:len(cur)] != cur:
                diff = [i for i in range(0, len(cur), 512) if back[i:i + 512] != cur[i:i + 512]]
                try: obs = 1024 << struct.unpack_from('<I', orig, off + 1024 + 0x18)[0]
                except Exception: obs = 0
                cls = '[undo-keys-in-mixed-block-units] ' if len(units | {obs}) > 1 else ''
                bad.append(cls + 'undoing the undo does not bring back the state before it: %d sectors differ (first at byte %d)' % (len(diff), diff[0]))
    return (devname, chain, 'checked', bad, log_)

KILL_OPS = ['tune2fs -I 256', 'tune2fs csum toggle', 'tune2fs -U', 'resize2fs grow', 'resize2fs shrink', 'e2fsck -fyD', 'debugfs fill', 'debugfs rm+mkdir', 'mke2fs ext4 4k', 'mke2fs ext2']
def kill_count(j):
    """number of write-class calls (device + undo file) of one recording run"""
    devname, label = j
    return (devname, label, kill_job((devname, label, 0))[3])
def kill_job(j):
    """(d) the recording run is ended at its k-th write call (device or undo file) as by SIGKILL; e2undo must then restore every block the run had changed"""
    devname, label, k = j
    orig = DEVS[devname]
    w = fsweep.scratch_worker()
    p = os.path.join(w, 'k_' + devname); u = os.path.join(w, 'k.e2undo'); lg = os.path.join(w, 'k.trace')
    for x in (p, u, lg):
        if os.path.exists(x): os.unlink(x)
    with open(p, 'wb') as f: f.write(orig)
    argv = dict(OPS)[label]
    a = fs_args(p); a.update({'d': p, 'u': u, 'payload': PAYLOAD, 'big': BIG, 'script': SCRIPT, 'zap': ZAP})
    if 'mke2fs' in label: argv = argv + ['%dk' % (len(orig) // 1024)]
    argv = [x.format(**a) for x in argv]
    env = tool_env({'E2FSPROGS_UNDO_DIR': '/nonexistent', 'LD_PRELOAD': IOTRACE, 'IOTRACE_PATH': p, 'IOTRACE_PATH2': u, 'IOTRACE_LOG': lg})
    if k: env['IOTRACE_KILL_AT'] = str(k)
    rc, out = run(argv, timeout=120, env=env)
    nw = sum(1 for l in open(lg) if l[0] == 'W') if os.path.exists(lg) else 0
    if not k: return (devname, label, k, nw, None)
    cur = open(p, 'rb').read()
    if len(cur) < len(orig):
        with open(p, 'ab') as f: f.write(orig[len(cur):])
        cur = open(p, 'rb').read()
    if rc != 137: return (devname, label, k, nw, None)          # the run finished before its k-th write
    touched = cur[:len(orig)] != orig
    if not os.path.exists(u):
        return (devname, label, k, nw, 'the device was modified before an undo file existed' if touched else None)
    rc2, out2 = run([TOOL['e2undo'], u, p], timeout=60)
    if rc2 != 0 and "superblock doesn't match" in out2 and open(p, 'rb').read() == cur:
        # the undo file carries the superblock as it was at the last index update; a run that ends between a superblock write and the next index
        # update leaves them different, and e2undo refuses such a pair unless forced (the property lists exactly this refusal): force it
        rc2, out2 = run([TOOL['e2undo'], '-f', u, p], timeout=60)
    after = bytearray(open(p, 'rb').read()[:len(orig)]); r2 = bytearray(orig)
    for o, l in ((0x3A, 2), (0x3FC, 4)):            # only the "needs check" marking (s_state and the superblock checksum over it) may differ
        after[1024 + o:1024 + o + l] = r2[1024 + o:1024 + o + l]
    if bytes(after) == bytes(r2): return (devname, label, k, nw, None)
    diff = [i for i in range(0, len(r2), 512) if after[i:i + 512] != r2[i:i + 512]]
    return (devname, label, k, nw, 'run killed at write call %d: e2undo exits %s and %d sectors of the device are not restored (first at byte %d, last at byte %d): %s' % (k, rc2, len(diff), diff[0], diff[-1], out2[-150:]))

def flip_job(j):
    name, bitpos = j
    dev_orig, dev_mod, undo = FLIP[name]
    w = fsweep.scratch_worker()
    p = os.path.join(w, 'f.img'); u = os.path.join(w, 'f.e2undo')
    with open(p, 'wb') as f: f.write(dev_mod)
    b = bytearray(undo); b[bitpos >> 3] ^= 1 << (bitpos & 7)
    with open(u, 'wb') as f: f.write(b)
    rc, out = run([TOOL['e2undo'], u, p], timeout=60)
    after = open(p, 'rb').read()
    if rc == 'TIMEOUT' or (isinstance(rc, int) and rc < 0): return (name, bitpos, 'e2undo killed/hung (%s)' % rc)
    if rc != 0 and after != dev_mod: return (name, bitpos, 'e2undo refused the damaged undo file (exit %s) but had already written to the device' % rc)
    if rc == 0 and after[:len(dev_orig)] != dev_orig:
        return (name, bitpos, 'e2undo accepted the damaged undo file (exit 0) and the device is not restored')
    return (name, bitpos, None)

def main(tier, only=None):
    global TOOL, OPS, DEVS, PAYLOAD, BIG, SCRIPT, FLIP, ZAP
    ck = Check('C12', tier, 'model_checking')
    TOOL = {k: tool(k) for k in ('tune2fs', 'resize2fs', 'e2fsck', 'debugfs', 'mke2fs', 'e2undo')}
    fsweep.init_scratch()
    quick = tier == 'quick'
    ck.set_deadline(400 if quick else 3000)
    sc = scratch()
    PAYLOAD = os.path.join(sc, 'payload'); open(PAYLOAD, 'wb').write(bytes((i * 3 + 1) & 0xff for i in range(9000)))
    BIG = os.path.join(sc, 'big'); open(BIG, 'wb').write(bytes((i * 7 + 5) & 0xff for i in range(1 << 20)))
    SCRIPT = os.path.join(sc, 'script.dbg'); open(SCRIPT, 'w').write('rm /f12\nmkdir /undo_dir\nsymlink /undo_dir/s /one\nkill_file /bs\n')
    ZAP = os.path.join(sc, 'zap.dbg'); open(ZAP, 'w').write(''.join('zap_block -p 0x5a %d\n' % b for b in range(41, 41 + 3 * 150, 3)))
    OPS = ops_for(None)
    # devices: corpus images, plus odd lengths (free space stamped so that any wrongly restored block shows), plus a filesystem at an offset
    def stamp(d, extra):
        return d + b''.join((('TAIL%06d|' % i).encode() * 64)[:512] for i in range(extra // 512))
    DEVS = {'ext2': fsweep.base_data('ext2'), 'ext4csum': fsweep.base_data('ext4csum'), 'bs4k': fsweep.base_data('bs4k'),
            'ext2+8k': stamp(fsweep.base_data('ext2'), 8192), 'ext2+1k': stamp(fsweep.base_data('ext2'), 1024 + 512)}
    def garbage_in_free_space(d):
        # every free block (per the block bitmaps) holds a non-zero stamp, like a device on which files were deleted: a discard wipes them, undo has to bring them back
        from xck.image import Image
        im = Image(d); b = bytearray(d)
        for g in range(im.groups):
            bm = im.block_bitmap(g); f0 = im.group_first_block(g)
            if bm is None: continue
            for i in range(im.group_nblocks(g)):
                if not (bm[i >> 3] >> (i & 7)) & 1:
                    blk = f0 + i; b[blk * im.bs:(blk + 1) * im.bs] = (('FREE%07d|' % blk).encode() * (im.bs // 12 + 1))[:im.bs]
        return bytes(b)
    DEVS['ext4csum+stale'] = garbage_in_free_space(fsweep.base_data('ext4csum'))
    DEVS['needsrec'] = fsweep.base_data('needsrec')          # journal with committed transactions: e2fsck replays it and restarts, tune2fs/debugfs -w replay it through the library
    if not quick:
        DEVS.update({'metabg': fsweep.base_data('metabg'), 'ext3': fsweep.base_data('ext3'), 'ext4csum+5k': stamp(fsweep.base_data('ext4csum'), 5 * 1024), 'ext2+stale': garbage_in_free_space(fsweep.base_data('ext2'))})
    # filesystem at offset 4096 (built with the tree's mke2fs, populated)
    po = os.path.join(sc, 'off.img')
    with open(po, 'wb') as f: f.write(b''.join((('HEAD%06d|' % i).encode() * 64)[:512] for i in range(8)))
    root = os.path.join(sc, 'root12'); os.makedirs(root)
    for n in ('one', 'f12', 'bs'): open(os.path.join(root, n), 'wb').write((n * 3000).encode())
    rc, out = run([TOOL['mke2fs'], '-q', '-F', '-t', 'ext4', '-O', '^has_journal', '-b', '1024', '-E', 'offset=4096', '-d', root, po, '1500k'], timeout=60)
    if rc == 0:
        DEVS['off4096'] = open(po, 'rb').read(); OFFSET['off4096'] = 4096
    labels = [o[0] for o in OPS]
    jobs = []
    for dn in DEVS:
        L = labels if not (quick and dn in ('bs4k', 'ext2+1k')) else sorted(set(labels[::2] + ['debugfs zap 150 scattered blocks', 'e2fsck -fy -E discard']), key=labels.index)
        for a in L:
            jobs.append((dn, (a,), False, 'chain'))
            jobs.append((dn, (a,), True, 'chain'))
        second = L if not quick else [l for l in L if l in ('tune2fs -L', 'tune2fs csum toggle', 'resize2fs grow', 'resize2fs shrink', 'e2fsck -fyD', 'debugfs fill', 'debugfs rm+mkdir', 'mke2fs ext2', 'mke2fs ext4 4k', 'debugfs zap 150 scattered blocks', 'e2fsck -fy -E discard')]
        for a in L:
            for b in second:
                jobs.append((dn, (a, b), False, 'chain'))
        if not quick and dn in ('ext2', 'ext2+8k', 'ext4csum', 'off4096'):
            third = ['tune2fs -L', 'resize2fs grow', 'debugfs fill', 'mke2fs ext2', 'e2fsck -fyD']
            for a in L:
                for b in second:
                    for c in third:
                        jobs.append((dn, (a, b, c), False, 'chain'))
    res = pmap(run_chain, jobs, chunksize=2)
    stat = {}; nchk = 0
    for dn, chain, st, bad, lg in res:
        stat[st] = stat.get(st, 0) + 1
        if st == 'checked': nchk += 1
        for b in bad[:2]:
            mm = re.match(r'\[([a-z-]+)\] ', b)
            ck.violation('b/%s/%s :: %s' % (dn, ' ; '.join(chain), b[:50]), {'device': dn, 'chain': list(chain), 'what': b, 'tool_exits': lg, 'root_cause_class': mm.group(1) if mm else None})
    ck.part('b_chains', chains=len(jobs), outcomes=stat, devices=sorted(DEVS))
    # ---- (c) single-bit damage
    FLIP = {}
    nflip = 0
    if not ck.expired():
        for name, dn, argv in (('tune2fs-L', 'ext2', [TOOL['tune2fs'], '-z', '{u}', '-O', 'dir_index', '-L', 'x', '{d}']), ('mke2fs-oddsize', 'ext2+8k', [TOOL['mke2fs'], '-q', '-F', '-z', '{u}', '-t', 'ext4', '-b', '1024', '{d}'])):
            p = os.path.join(sc, 'flip.img'); u = os.path.join(sc, 'flip.e2undo')
            for x in (p, u):
                if os.path.exists(x): os.unlink(x)
            open(p, 'wb').write(DEVS[dn])
            rc, out = run([x.format(d=p, u=u) for x in argv], timeout=60, env=tool_env({'E2FSPROGS_UNDO_DIR': '/nonexistent'}))
            if os.path.exists(u):
                FLIP[name] = (DEVS[dn], open(p, 'rb').read(), open(u, 'rb').read())
        fj = []
        for name, (o, m, ud) in FLIP.items():
            nbits = len(ud) * 8
            if name == 'mke2fs-oddsize':
                # large undo file: header + key blocks densely, data blocks at a stride
                dense = 3 * 32768 if not quick else 4096
                pos = list(range(0, min(nbits, dense * 8), 1 if not quick else 8)) + list(range(dense * 8, nbits, 8 * 97 + 3))
            else:
                pos = range(0, nbits, 1 if not quick else 8)
            fj += [(name, b) for b in pos]
        fres = pmap(flip_job, fj, chunksize=64)
        for name, b, msg in fres:
            nflip += 1
            if msg: ck.violation('c/%s/bit%d' % (name, b), {'undo': name, 'bit': b, 'what': msg})
        ck.part('c_bit_flips', flips=nflip, undo_files={k: len(v[2]) for k, v in FLIP.items()})
    # ---- (d) kill points: every write call of a recording run is a point where the run may end without any cleanup
    global IOTRACE
    import subprocess
    IOTRACE = os.path.join(BUILD, 'bin/iotrace.so'); os.makedirs(os.path.dirname(IOTRACE), exist_ok=True)
    subprocess.check_call(['gcc', '-O2', '-shared', '-fPIC', '-o', IOTRACE, os.path.join(VERIF, 'engines/iotrace.c'), '-ldl'])
    nkill = 0; kper = {}
    if not ck.expired():
        kdevs = ['ext2', 'ext4csum'] if quick else ['ext2', 'ext4csum', 'bs4k', 'ext2+1k']
        cnt = pmap(kill_count, [(dn, l) for dn in kdevs for l in KILL_OPS], chunksize=1)
        kj = []
        for dn, l, nw in cnt:
            if not nw: continue
            cap = 60 if quick else 400
            ks = list(range(1, nw + 1)) if nw <= cap else sorted(set(list(range(1, 16)) + [1 + (i * (nw - 1)) // (cap - 30) for i in range(cap - 30)] + list(range(nw - 14, nw + 1))))
            kper['%s/%s' % (dn, l)] = {'write_calls': nw, 'kill_points': len(ks)}
            kj += [(dn, l, k) for k in ks]
        for i0 in range(0, len(kj), 512):
            if ck.expired(): ck.add(exhaustive=False); break
            for dn, l, k, nw, msg in pmap(kill_job, kj[i0:i0 + 512], chunksize=4):
                nkill += 1
                if msg: ck.violation('d/%s/%s/kill@%d' % (dn, l, k), {'device': dn, 'run': l, 'kill_at_write_call': k, 'what': msg})
        ck.part('d_kill_points', runs=kper, executions=nkill)
    ck.add(evaluations=len(jobs) + nflip + nkill, distinct_nontrivial=nchk, states=len(jobs), transitions=sum(len(j[1]) for j in jobs) + nflip, traces_validated_against_impl=len(jobs),
           rule='(b) all chains up to depth %d over a menu of %d undo-recording runs (tune2fs x6, resize2fs x3, e2fsck x2, debugfs -w x4, mke2fs x3) appending to one undo file, on %d devices (1k/2k/4k block sizes, device lengths that are not a multiple '
                'of the undo block size with stamped tails, a filesystem at offset 4096), plus every single run with a simulated unfinished recording; oracle: e2undo -n writes nothing, e2undo exits 0 and the device equals, over its original length, '
                'its state before the first run recorded in the undo file (unfinished: except s_state/checksum of the primary superblock); e2undo -z of that undo file followed by e2undo of the new file brings back the state before the first e2undo; (c) single-bit flips of two undo files: e2undo refuses without writing, or restores exactly. '
                '(d) each of 10 recording runs is ended (as by SIGKILL: no exit handlers) instead of performing its k-th write call, for every k (quick: at most 60 points per run, dense at both ends), device and undo file writes counted together; e2undo must then bring back every block, only the needs-check marking may differ; distinct_nontrivial = chains in which an undo file was produced and checked' % (2 if quick else 3, len(OPS), len(DEVS)),
           samples=['%s: %s' % (j[0], ' ; '.join(j[1])) for j in (jobs[0], jobs[len(jobs) // 2], jobs[-1])])
    ck.assumptions += ['tool-level exploration only (the undo manager is driven through the tools\' own open/flush/close sequences)',
                       'when a run fails before recording anything and leaves the device untouched the chain continues; a device modified before any undo file exists is not asserted']
    return ck.finish()

def replay(path):
    global TOOL, OPS
    d = json.load(open(path))['detail']
    print(json.dumps(d, indent=1)[:2000])
    return 1
