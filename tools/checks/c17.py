"""C17: I/O channel coherence/durability/error reporting (part A: engines/iochanx.c) and threaded bitmap loading
(part B: engines/rwbmx.c -- differential over all thread counts, preemption-bounded schedule exploration, TSan pass)."""
import os, json, subprocess, time, re, shutil
from vlib.common import *

def cc(out, srcs, variant, extra=(), san='address'):
    S = build(variant)
    out = os.path.join(BUILD, 'bin', out)
    os.makedirs(os.path.dirname(out), exist_ok=True)
    cmd = ['gcc', '-O1', '-g', '-fsanitize=' + san, '-fno-omit-frame-pointer', '-w', '-I%s/lib' % S, '-I%s/lib/ext2fs' % S,
           '-I' + os.path.join(VERIF, 'engines'), '-o', out] + [os.path.join(VERIF, x) for x in srcs] + list(extra) + \
          ['%s/lib/ext2fs/libext2fs.a' % S, '%s/lib/et/libcom_err.a' % S, '-lpthread']
    r = subprocess.run(cmd, stdout=subprocess.PIPE, stderr=subprocess.STDOUT, text=True)
    if r.returncode:
        log(r.stdout[-3000:])
        raise SystemExit('harness %s does not compile against the tree' % out)
    return out

WRAP = '-Wl,--wrap=pthread_create,--wrap=pthread_join,--wrap=pthread_mutex_lock,--wrap=pthread_mutex_unlock,--wrap=pread64'
ENV = {'ASAN_OPTIONS': 'detect_leaks=0:exitcode=99', 'TSAN_OPTIONS': 'exitcode=66:halt_on_error=0:report_signal_unsafe=0', 'PATH': '/usr/bin:/bin'}

def runj(argv, tmo):
    t = time.time()
    try:
        r = subprocess.run(argv, stdout=subprocess.PIPE, stderr=subprocess.PIPE, timeout=tmo, env=ENV)
        rc, out, err = r.returncode, r.stdout.decode(), r.stderr.decode()
    except subprocess.TimeoutExpired as e:
        rc, out, err = 'TIMEOUT', (e.stdout or b'').decode(), ''
    viol, summ = [], None
    for l in out.splitlines():
        try:
            d = json.loads(l)
        except Exception:
            continue
        if d.get('type') == 'violation':
            viol.append(d)
        elif d.get('type') == 'summary':
            summ = d
    return rc, viol, summ, err[-3000:], time.time() - t

def run_a(a):
    exe, mode, depth, fdepth, maxst, tmo = a
    return (mode, depth, fdepth) + runj([exe, mode, str(depth), str(fdepth), str(maxst)], tmo)

def mkimg(path, kind, groups, flex, extra=()):
    """make a small image with the tree's mke2fs (differential oracle: the image itself is not trusted)"""
    feat = {'ext2': '^has_journal,^resize_inode,^dir_index', 'csum': '^has_journal,^resize_inode,metadata_csum,64bit',
            'flex': '^has_journal,^resize_inode'}[kind]
    t = {'ext2': 'ext2', 'csum': 'ext4', 'flex': 'ext4'}[kind]
    argv = [tool('mke2fs'), '-q', '-F', '-t', t, '-O', feat, '-b', '1024', '-g', '256', '-N', str(16 * groups), '-E', 'lazy_itable_init=0']
    if t == 'ext4':
        argv += ['-G', str(flex)]
    argv += list(extra) + [path, str(256 * groups + 1)]
    rc, out = run(argv)
    return rc == 0 and os.path.exists(path)

def bitmap_locs(path):
    rc, out = run([tool('dumpe2fs'), path])
    bb = [int(x) for x in re.findall(r'Block bitmap at (\d+)', out)]
    ib = [int(x) for x in re.findall(r'[Ii]node bitmap at (\d+)', out)]
    return bb, ib

def run_diff(a):
    exe, img, maxt = a
    return (img,) + runj([exe, 'diff', img, str(maxt)], 300)

def run_sched(a):
    exe, img, thr, flags, bound, maxs, failread, tmo = a
    argv = [exe, 'sched', img, str(thr), str(flags), str(bound), str(maxs)]
    if failread is not None:
        argv.append(str(failread))
    return (img, thr, flags, bound, failread) + runj(argv, tmo)

def run_free(a):
    exe, img, thr, flags, rep = a
    return (img, thr, flags) + runj([exe, 'free', img, str(thr), str(flags), str(rep)], 300)

def main(tier, only=None):
    ck = Check('C17', tier, 'model_checking')
    quick = tier == 'quick'
    parts = only or ['A', 'B1', 'B2', 'B3']
    sc = scratch()
    # ------------------------------------------------------------ part A
    if 'A' in parts:
        exe = cc('iochanx', ['engines/iochanx.c'], 'asan')
        if quick:
            jobs = [('cached', 4, 2), ('bounce', 3, 2), ('align512', 3, 2), ('writethrough', 4, 2), ('nocache', 4, 3)]
        else:
            jobs = [('cached', 5, 3), ('bounce', 4, 3), ('align512', 4, 3), ('writethrough', 5, 3), ('nocache', 6, 4)]
        res = pmap(run_a, [(exe, m, d, f, 9000000, 300 if quick else 3000) for m, d, f in jobs], chunksize=1)
        pa = {}
        for mode, depth, fdepth, rc, viol, summ, err, dt in res:
            cid = 'A/%s/d%d' % (mode, depth)
            if rc == 'TIMEOUT':
                ck.add(exhaustive=False); pa[cid] = 'not finished within the time limit; nothing claimed'; continue
            if rc != 0 or summ is None:
                ck.violation(cid + ':crash', {'part': 'A', 'mode': mode, 'exit': rc, 'stderr': err, 'what': 'harness crashed (sanitizer report / fatal signal in unix_io.c)'}); continue
            seen = set()
            for v in viol:
                sig = (v['kind'], re.sub(r'\d+', 'N', v['msg'])[:60])
                if sig in seen: continue
                seen.add(sig)
                ck.violation(cid + ':' + ';'.join(v['history']), dict(v, part='A', mode=mode))
            ck.add(states=summ['states'], transitions=summ['transitions'] + summ['fault_runs'], traces_validated_against_impl=summ['transitions'] + summ['fault_runs'],
                   evaluations=summ['transitions'] + summ['fault_runs'], distinct_nontrivial=summ['states'])
            if summ['capped']: ck.add(exhaustive=False)
            pa[cid] = {k: summ[k] for k in ('depth', 'fault_depth', 'ops', 'states', 'transitions', 'frontier_states_probed', 'fault_runs', 'capped')}
            pa[cid]['wall_s'] = round(dt, 1)
            if len(ck.cov['samples']) < 3:
                ck.add(samples=[{'part': 'A', 'mode': mode, 'history': summ['deepest_history']}])
        ck.part('A_channel_histories', **pa)
    # ------------------------------------------------------------ part B images
    if any(p in parts for p in ('B1', 'B2', 'B3')):
        exe_s = cc('rwbmx', ['engines/rwbmx.c'], 'asan', ['-DSCHED', WRAP])
        imgs = []
        groups = range(1, 25) if not quick else [1, 2, 3, 4, 5, 6, 7, 8, 9, 12, 16, 17, 24]
        for kind, flexes in (('ext2', [1]), ('csum', [1, 2, 4, 16]), ('flex', [2, 4])):
            for g in groups:
                for fx in flexes:
                    p = os.path.join(sc, 'b_%s_g%d_f%d.img' % (kind, g, fx))
                    if mkimg(p, kind, g, fx):
                        imgs.append(p)
        # damaged variants: bad checksum / bad tail / unreadable location in group gi
        for base, g in (('ext2', 4), ('csum', 7), ('csum', 12), ('ext2', 12)):
            p0 = os.path.join(sc, 'b_%s_g%d_f1.img' % (base, g))
            if not os.path.exists(p0):
                if not mkimg(p0, base, g, 1): continue
            bb, ib = bitmap_locs(p0)
            for gi in range(len(bb)):
                for what in ('bcsum', 'btail', 'itail', 'icsum'):
                    if what.endswith('csum') and base != 'csum': continue
                    p = os.path.join(sc, 'd_%s_g%d_%s%d.img' % (base, g, what, gi))
                    shutil.copyfile(p0, p)
                    blk = bb[gi] if what[0] == 'b' else ib[gi]
                    with open(p, 'r+b') as f:
                        if what.endswith('csum'):
                            f.seek(blk * 1024 + 3); c = f.read(1); f.seek(blk * 1024 + 3); f.write(bytes([c[0] ^ 0x10]))
                        else:
                            f.seek(blk * 1024 + 1023); f.write(b'\x00')
                    imgs.append(p)
    if 'B1' in parts:
        # one filesystem with more than 2^32 blocks (64 KiB blocks, 153600 groups, sparse 600 TB file; a second thread already starts beyond bit 2^32): group -> bit position arithmetic beyond 32 bits
        huge = os.path.join(sc, 'b_huge64k.img')
        rc, out = run([tool('mke2fs'), '-q', '-F', '-t', 'ext4', '-b', '65536', '-O', '64bit,^has_journal,^resize_inode,sparse_super2', '-E', 'num_backup_sb=0,lazy_itable_init=1,nodiscard', '-N', '20000', huge, '600T'], timeout=120)
        hugejobs = [(exe_s, huge, 4 if quick else 9)] if rc == 0 and os.path.exists(huge) else []
        res = pmap(run_diff, hugejobs + [(exe_s, p, 16) for p in imgs], chunksize=1)
        if os.path.exists(huge): os.unlink(huge)
        runs = thr = 0
        for img, rc, viol, summ, err, dt in res:
            name = os.path.basename(img)
            if rc != 0 or summ is None:
                ck.violation('B1/%s:crash' % name, {'part': 'B1', 'image': name, 'exit': rc, 'stderr': err}); continue
            for v in viol[:1]:
                ck.violation('B1/%s/t%d/f%d' % (name, v['threads'], v['flags']), dict(v, part='B1', image=name))
            runs += summ['runs']; thr += summ['runs_that_created_threads']
        ck.add(evaluations=runs, transitions=runs, traces_validated_against_impl=runs, states=len(imgs))
        ck.part('B1_partition_differential', images=len(imgs), loads_compared=runs, loads_that_really_ran_threads=thr,
                rule='every image x thread count 2..16 x {block,inode,both}: bitmaps, tail flags and return code equal the single-threaded load; plus one 2^32+ block filesystem (64 KiB blocks, 153600 groups) x thread count 2..4 (thorough ..9)')
        if thr == 0:
            ck.violation('B1:vacuous', {'what': 'no load took the threaded path'})
    if 'B2' in parts:
        jobs = []
        e4 = os.path.join(sc, 'b_ext2_g4_f1.img'); c6 = os.path.join(sc, 'b_csum_g6_f2.img'); e6 = os.path.join(sc, 'b_ext2_g6_f1.img')
        d1 = os.path.join(sc, 'd_ext2_g4_btail2.img'); d2 = os.path.join(sc, 'd_csum_g7_bcsum3.img')
        for p, k, g, fx in ((c6, 'csum', 6, 2), (e6, 'ext2', 6, 1), (e4, 'ext2', 4, 1)):
            if not os.path.exists(p): mkimg(p, k, g, fx)
        B = 2 if quick else 3
        tm = 280 if quick else 3000
        for img in (e4, c6, d1, d2):
            jobs.append((exe_s, img, 2, 6, 2, 400000, None, tm))
        jobs.append((exe_s, e4, 3, 6, 2, 400000, None, tm))
        jobs.append((exe_s, e4, 2, 2, B, 400000, None, tm))
        jobs.append((exe_s, e4, 2, 4, B, 400000, None, tm))
        if not quick:
            jobs.append((exe_s, e6, 3, 6, 2, 2000000, None, tm))
            jobs.append((exe_s, c6, 3, 6, 2, 2000000, None, tm))
            jobs.append((exe_s, e4, 4, 6, 2, 2000000, None, tm))
            jobs.append((exe_s, e4, 2, 6, 3, 2000000, None, tm))
        for k in range(1, 17 if quick else 17):     # injected read failure at every read position
            jobs.append((exe_s, e4, 2, 6, 1, 400000, k, tm))
        res = pmap(run_sched, jobs, chunksize=1)
        tot = 0; pb = {}
        for img, thr_, flags, bound, failread, rc, viol, summ, err, dt in res:
            name = os.path.basename(img)
            cid = 'B2/%s/t%d/f%d/p%d%s' % (name, thr_, flags, bound, '' if failread is None else '/failread%d' % failread)
            if rc == 'TIMEOUT':
                ck.add(exhaustive=False); pb[cid] = 'not finished'; continue
            if rc != 0 or summ is None:
                ck.violation(cid + ':crash', {'part': 'B2', 'exit': rc, 'stderr': err}); continue
            for v in viol[:1]:
                if failread is not None and 'vacuous' in v.get('what', ''):
                    continue
                ck.violation(cid + ':' + ','.join(map(str, v['choices'])), dict(v, part='B2', image=name, mkimg=name))
            if summ['capped']: ck.add(exhaustive=False)
            tot += summ['schedules']
            pb[cid] = {'schedules': summ['schedules'], 'max_points': summ['max_points'], 'distinct_outcomes': summ['distinct_outcomes'], 'capped': summ['capped'], 'wall_s': round(dt, 1)}
        ck.add(evaluations=tot, transitions=tot, traces_validated_against_impl=tot, states=tot)
        ck.part('B2_schedules', **pb)
        ck.add(samples=[{'part': 'B2', 'schedule': 'choice list = index into the enabled-thread list at each scheduling point (0 = default)', 'example': [0, 0, 1, 0, 0, 2, 0]}])
    if 'B3' in parts:
        exe_t = cc('rwbmx_tsan', ['engines/rwbmx.c'], 'tsan', ['-DCOUNT_CREATES', '-Wl,--wrap=pthread_create'], san='thread')
        tim = [os.path.join(sc, n) for n in ('b_ext2_g4_f1.img', 'b_csum_g12_f4.img', 'b_ext2_g12_f1.img', 'd_ext2_g4_btail2.img', 'b_flex_g8_f2.img')]
        jobs = [(exe_t, p, t, fl, 10 if quick else 40) for p in tim if os.path.exists(p) for t in (2, 3, 4, 8) for fl in (2, 4, 6)]
        res = pmap(run_free, jobs, chunksize=1)
        n = 0; created = 0
        for img, thr_, flags, rc, viol, summ, err, dt in res:
            name = os.path.basename(img)
            cid = 'B3/%s/t%d/f%d' % (name, thr_, flags)
            if rc == 66 or 'ThreadSanitizer' in err:
                m = re.search(r'WARNING: ThreadSanitizer: ([^\n]*)\n(.*?)\n\n', err + '\n\n', re.S)
                ck.violation(cid + ':tsan', {'part': 'B3', 'image': name, 'threads': thr_, 'flags': flags, 'report': err[-2500:]}); continue
            if rc != 0 or summ is None:
                ck.violation(cid + ':crash', {'part': 'B3', 'exit': rc, 'stderr': err}); continue
            if summ['mismatches']:
                ck.violation(cid + ':mismatch', {'part': 'B3', 'summary': summ})
            n += summ['repeat']; created += summ['threads_created']
        ck.add(evaluations=n, transitions=n, traces_validated_against_impl=n)
        ck.part('B3_tsan_free_running', runs=n, configurations=len(jobs), note='ThreadSanitizer build of libext2fs, no scheduler linked; any report is a violation')
        if jobs and created == 0:
            ck.violation('B3:vacuous', {'what': 'no TSan run created threads'})
    ck.add(rule='A: BFS over channel histories (112-op alphabet) de-duplicated on the channel control state, every transition executed on the real unix_io.c over an in-memory '
                'device and checked against a byte-array model, plus, for every history up to the fault depth and every k, the k-th device write call failing once, together with the next call (a pwrite and its lseek+write fallback), and from then on (a flush/close that reports success while nothing has reported an error must have made the backing file current); '
                'B1: all thread counts x geometries differential; B2: all schedules with <= N preemptions over hooked pthread/pread points; B3: TSan free-running')
    ck.assumptions += ['part A: 16 KiB device, blocks {0,1,5,6,9,10,11}, block sizes 1k/2k; cache on/off is not toggled mid-history; sequentially consistent memory',
                       'part B: images made by the tree\'s own mke2fs (only used differentially: n threads vs 1 thread on the same image); scheduling points at mutex_lock/pread64/create/join/exit; '
                       'unsynchronised accesses are covered by the separate TSan pass, not by the scheduler']
    return ck.finish()

def replay(path):
    d = json.load(open(path))['detail']
    if d.get('part') == 'A':
        exe = cc('iochanx', ['engines/iochanx.c'], 'asan')
        argv = [exe, d['mode'], '0', '0', '10', '--replay', ','.join(map(str, d['history_ids']))]
        if 'fail' in d: argv += ['--fail', str(d['fail'])] + (['--sticky', str(d['sticky'])] if d.get('sticky') else [])
        r = subprocess.run(argv, env=ENV)
        print('replay verdict:', 'VIOLATION reproduced' if r.returncode else 'no violation')
        return 1 if r.returncode else 0
    print(json.dumps(d, indent=1)); print('part B replays need the generated image; re-run the check (cases are deterministic)')
    return 1
