"""C19: e2image images preserve all metadata (raw and qcow2), qcow2->raw equals raw, -ra preserves file bytes, the source is never touched."""
import os, json, re, shutil
from vlib.common import *
from vlib import fsweep
from xck.image import Image, Malformed
from xck import layout, tree as xtree

def mk_source(p, kind, size, root):
    feat = {'ext4csum': ['-t', 'ext4', '-O', 'metadata_csum,64bit,^resize_inode', '-J', 'size=1'], 'ext2': ['-t', 'ext2', '-O', '^resize_inode'],
            'ext4': ['-t', 'ext4', '-O', '^has_journal,^metadata_csum,^resize_inode,uninit_bg']}[kind]
    rc, out = run([MKE2FS, '-q', '-F', '-b', '1024', '-g', '256', '-N', '64', '-U', fsweep_uuid, '-d', root] + feat + [p, str(size)], timeout=60)
    return rc == 0

fsweep_uuid = '6b33f586-a183-4383-921d-30ab132db9b9'

def strip(txt, path):
    return re.sub(r'[^\s]*' + re.escape(os.path.basename(path)) + r'[^\s]*', 'IMG', txt)

def job(j):
    cid, src_kind, arg = j
    p = fsweep.worker_path('c19src'); d = os.path.dirname(p)
    if src_kind == 'corpus':
        data = fsweep.base_data(arg)
        with open(p, 'wb') as f: f.write(data)
    else:
        kind, size = arg
        if os.path.exists(p): os.unlink(p)
        if not mk_source(p, kind, size, ROOT):
            return (cid, 'skip', 'mke2fs refused this size', 0)
        with open(p, 'rb') as f: data = f.read()
    # give inodes that have no block map of their own (fast symlink, device node, fifo, inline-data file) an external attribute block:
    # such a block is metadata although its owner maps no blocks.  Prepared with the tree's debugfs; kept only if e2fsck still accepts the image.
    sp = p + '.dbg'
    big = 'V' * 300
    open(sp, 'w').write(''.join('ea_set %s user.c19 %s\n' % (f_, big) for f_ in ('/lnk_short', '/chr', '/blk', '/fifo', '/fast', '/d/chr', '/d/fifo', '/empty', '/one')))
    run([DEBUGFS, '-w', '-f', sp, p], timeout=60)
    if run([E2FSCK, '-fn', p], timeout=60)[0] == 0:
        with open(p, 'rb') as f: data = f.read()
    else:
        with open(p, 'wb') as f: f.write(data)
    try:
        im = Image(data); M = layout.metadata_blocks(im); t0 = xtree.tree(im)
        # e2image keeps the primary superblock/descriptors only; backup copies are outside "metadata" here (the -ra clause of the property names them as allowed to differ)
        for g in range(1, im.groups):
            M -= set(im.group_overhead_blocks(g))
    except Exception as e:
        return (cid, 'skip', 'source not readable by xck: %r' % e, 0)
    bs = im.bs
    raw = os.path.join(d, 'raw.img'); qc = os.path.join(d, 'q.qcow2'); q2r = os.path.join(d, 'q2r.img'); ra = os.path.join(d, 'ra.img')
    for f in (raw, qc, q2r, ra):
        if os.path.exists(f): os.unlink(f)
    bad = []; n = 0
    def unchanged(label):
        with open(p, 'rb') as f:
            if f.read() != data: bad.append('%s modified its source' % label)
    rc, out = run([E2IMAGE, '-r', p, raw], timeout=60); n += 1; unchanged('e2image -r')
    if rc != 0: bad.append('e2image -r exit %s: %s' % (rc, out[-200:]))
    else:
        r = open(raw, 'rb').read()
        miss = [b for b in sorted(M) if r[b * bs:(b + 1) * bs] != data[b * bs:(b + 1) * bs]]
        if miss: bad.append('raw image differs from the source on metadata blocks %s' % miss[:8])
        a = run([E2FSCK, '-fn', p], timeout=60); b = run([E2FSCK, '-fn', raw], timeout=60)
        if a[0] != b[0] or strip(a[1], p) != strip(b[1], raw): bad.append('e2fsck -fn differs between source and raw image: %s / %s' % (a[0], b[0]))
        a = run([DUMPE2FS, p], timeout=60); b = run([DUMPE2FS, raw], timeout=60)
        if a[0] != b[0] or strip(a[1], p) != strip(b[1], raw): bad.append('dumpe2fs differs between source and raw image')
    rc, out = run([E2IMAGE, '-Q', p, qc], timeout=60); n += 1; unchanged('e2image -Q')
    if rc != 0: bad.append('e2image -Q exit %s: %s' % (rc, out[-200:]))
    else:
        rc, out = run([E2IMAGE, '-r', qc, q2r], timeout=60); n += 1
        if rc != 0: bad.append('qcow2 -> raw conversion exit %s: %s' % (rc, out[-200:]))
        elif os.path.exists(raw):
            x = open(q2r, 'rb').read(); r = open(raw, 'rb').read()
            if len(x) < len(r): x += b'\0' * (len(r) - len(x))
            if len(r) < len(x): r += b'\0' * (len(x) - len(r))
            if x != r:
                diff = [i // bs for i in range(0, len(r), bs) if x[i:i + bs] != r[i:i + bs]][:8]
                bad.append('qcow2->raw differs from the direct raw image at blocks %s' % diff)
    rc, out = run([E2IMAGE, '-ra', p, ra], timeout=60); n += 1; unchanged('e2image -ra')
    if rc != 0: bad.append('e2image -ra exit %s: %s' % (rc, out[-200:]))
    else:
        x = open(ra, 'rb').read()
        try:
            d2 = xtree.diff(t0, xtree.tree(Image(x)))
        except Exception as e:
            d2 = ['all-data image not readable: %r' % e]
        if d2: bad.append('-ra image: files differ: %s' % d2[:4])
        miss = [b for b in sorted(M) if x[b * bs:(b + 1) * bs] != data[b * bs:(b + 1) * bs]]
        if miss: bad.append('-ra image differs from the source on primary metadata blocks %s' % miss[:8])
    # the same onto an output file that already exists and holds other data (raw output is opened without truncation: every block of the image, all-zero
    # ones included, has to be written then)
    pre = os.path.join(d, 'pre.img')
    # (e2image documents that it leaves out what the descriptors declare unused: the never-used tail of an inode table, the tables and bitmaps of uninitialised
    # groups; in a fresh image those are holes, i.e. zeros like the source, here they keep what the file held)
    M = set(M)
    if im.has_gdt_csum or im.has_csum:
        ipb = bs // im.inode_size
        for g in range(im.groups):
            gd = im.gd[g]
            if gd.bg_flags & 1: M -= set(range(gd.inode_table, gd.inode_table + im.itb_per_group)) | {gd.inode_bitmap}
            else: M -= set(range(gd.inode_table + im.itb_per_group - min(gd.itable_unused // ipb, im.itb_per_group), gd.inode_table + im.itb_per_group))
            if gd.bg_flags & 2: M -= {gd.block_bitmap}
    for mode in ('-r', '-ra'):
        with open(pre, 'wb') as f: f.write(b'\xee' * len(data))
        rc, out = run([E2IMAGE, mode, p, pre], timeout=60); n += 1; unchanged('e2image %s onto an existing file' % mode)
        if rc != 0: bad.append('e2image %s onto an existing file: exit %s: %s' % (mode, rc, out[-200:])); continue
        x = open(pre, 'rb').read()
        miss = [b for b in sorted(M) if x[b * bs:(b + 1) * bs] != data[b * bs:(b + 1) * bs]]
        if miss: bad.append('e2image %s onto an existing file: metadata blocks %s differ from the source' % (mode, miss[:8]))
        if mode == '-ra' and not miss:
            try: d3 = xtree.diff(t0, xtree.tree(Image(x)))
            except Exception as e: d3 = ['not readable: %r' % e]
            if d3: bad.append('e2image -ra onto an existing file: files differ: %s' % d3[:4])
    if os.path.exists(pre): os.unlink(pre)
    return (cid, 'bad' if bad else 'ok', bad, n)

def data_extents(path):
    """(start, end) byte ranges that hold data in a sparse file"""
    out = []; fd = os.open(path, os.O_RDONLY)
    try:
        size = os.fstat(fd).st_size; pos = 0
        while pos < size:
            try: a = os.lseek(fd, pos, os.SEEK_DATA)
            except OSError: break
            b = os.lseek(fd, a, os.SEEK_HOLE)
            out.append((a, b)); pos = b
    finally:
        os.close(fd)
    return out

def sparse_diff(a, b, bs):
    """block numbers where two sparse files differ (holes and the part beyond the shorter file read as zeros)"""
    ext = sorted(data_extents(a) + data_extents(b)); diff = []
    fa = open(a, 'rb'); fb = open(b, 'rb'); done = 0
    for s0, e0 in ext:
        s0 = max(s0, done) // bs * bs
        while s0 < e0:
            n = min(1 << 22, e0 - s0)
            fa.seek(s0); x = fa.read(n); fb.seek(s0); y = fb.read(n)
            x += b'\0' * (n - len(x)); y += b'\0' * (n - len(y))
            if x != y: diff += [(s0 + i) // bs for i in range(0, n, bs) if x[i:i + bs] != y[i:i + bs]]
            s0 += n
        done = max(done, e0)
    return diff

BIG = {'big4g': (['-t', 'ext4', '-b', '4096', '-O', '^flex_bg,^has_journal,^resize_inode,metadata_csum,64bit', '-N', '2048'], 1114112),
       'big4g_ext2_1k': (['-t', 'ext2', '-b', '1024', '-O', '^resize_inode,sparse_super', '-N', '8192', '-g', '8192'], 4194304 + 8192 * 3 + 77),
       # more than 512 qcow2 L2 tables in one image (1 KiB clusters: one table per 128 KiB; 700 groups of 256 KiB without flex_bg, metadata in each): the writer's table cache recycles
       # (groups of 264 blocks: the position of a group's metadata inside its 128-entry table rotates, so a recycled table that was not wiped shows)
       'manyl2': (['-t', 'ext4', '-b', '1024', '-g', '264', '-O', '^flex_bg,^has_journal,^resize_inode,^metadata_csum,^uninit_bg', '-N', '5600'], 700 * 264 + 9),
       'manyl2_ext2': (['-t', 'ext2', '-b', '1024', '-g', '264', '-O', '^resize_inode', '-N', '5600'], 640 * 264 + 131),
       'manyl2_2k': (['-t', 'ext2', '-b', '2048', '-g', '520', '-O', '^resize_inode', '-N', '4800'], 600 * 520 + 77),
       'big4g_bigalloc': (['-t', 'ext4', '-b', '4096', '-C', '65536', '-O', 'bigalloc,^flex_bg,^has_journal,^resize_inode,metadata_csum', '-N', '2048'], 1114112 + 4096)}
def job_big(j):
    """filesystems whose metadata lies beyond byte offsets 2^31 and 2^32 (sparse scratch files; group bitmaps and inode tables of the last groups sit above 4 GiB)"""
    import mmap
    cid, _, kind = j
    p = fsweep.worker_path('c19big'); d = os.path.dirname(p)
    raw = os.path.join(d, 'bigraw.img'); qc = os.path.join(d, 'bigq.qcow2'); q2r = os.path.join(d, 'bigq2r.img')
    for f in (p, raw, qc, q2r):
        if os.path.exists(f): os.unlink(f)
    opts, blocks = BIG[kind]
    rc, out = run([MKE2FS, '-q', '-F', '-E', 'lazy_itable_init=1,nodiscard', '-U', fsweep_uuid] + opts + [p, str(blocks)], timeout=600)
    if rc != 0: return (cid, 'skip', 'mke2fs refused: %s' % out[-100:], 0)
    run([DEBUGFS, '-w', '-R', 'write %s /f0' % os.path.join(ROOT, 'd', 'f3'), p], timeout=600)
    bad = []; n = 0
    try:
        f = open(p, 'rb'); m = mmap.mmap(f.fileno(), 0, access=mmap.ACCESS_READ)
        im = Image(m); M = layout.metadata_blocks(im); bs = im.bs
        for g in range(1, im.groups): M -= set(im.group_overhead_blocks(g))
        h0 = sha(p)
        if kind.startswith('big4g') and max(M) * bs < (1 << 32): return (cid, 'skip', 'no metadata above 4 GiB', 0)
        def cmpM(other, label):
            with open(other, 'rb') as fo:
                miss = []
                for b in sorted(M):
                    fo.seek(b * bs); x = fo.read(bs); x += b'\0' * (bs - len(x))
                    if x != m[b * bs:(b + 1) * bs]: miss.append(b)
            if miss: bad.append('%s differs from the source on metadata blocks %s' % (label, miss[:8]))
        rc, out = run([E2IMAGE, '-r', p, raw], timeout=600); n += 1
        if rc != 0: bad.append('e2image -r exit %s: %s' % (rc, out[-200:]))
        else:
            cmpM(raw, 'raw image')
            a = run([E2FSCK, '-fn', p], timeout=600); b = run([E2FSCK, '-fn', raw], timeout=600)
            if a[0] != b[0] or strip(a[1], p) != strip(b[1], raw): bad.append('e2fsck -fn differs between source and raw image: %s / %s' % (a[0], b[0]))
        rc, out = run([E2IMAGE, '-Q', p, qc], timeout=600); n += 1
        if rc != 0: bad.append('e2image -Q exit %s: %s' % (rc, out[-200:]))
        else:
            rc, out = run([E2IMAGE, '-r', qc, q2r], timeout=600); n += 1
            if rc != 0: bad.append('qcow2 -> raw conversion exit %s: %s' % (rc, out[-200:]))
            else:
                cmpM(q2r, 'qcow2->raw image')
                if os.path.exists(raw):
                    df = sparse_diff(raw, q2r, bs)
                    if df: bad.append('qcow2->raw differs from the direct raw image at blocks %s' % df[:8])
                a = run([DUMPE2FS, p], timeout=600); b = run([DUMPE2FS, q2r], timeout=600)
                if a[0] != b[0] or strip(a[1], p) != strip(b[1], q2r): bad.append('dumpe2fs differs between source and qcow2->raw image')
        if kind.startswith('manyl2'):
            # all-data images as well: the qcow2 writer then maps every used block, the conversion back must equal the direct all-data raw image
            for f_ in (raw, qc, q2r):
                if os.path.exists(f_): os.unlink(f_)
            r1 = run([E2IMAGE, '-ra', p, raw], timeout=600); r2 = run([E2IMAGE, '-Qa', p, qc], timeout=600); n += 2
            if r1[0] != 0 or r2[0] != 0: bad.append('e2image -ra / -Qa exit %s / %s' % (r1[0], r2[0]))
            else:
                r3 = run([E2IMAGE, '-r', qc, q2r], timeout=600); n += 1
                if r3[0] != 0: bad.append('qcow2(-Qa) -> raw conversion exit %s' % r3[0])
                else:
                    df = sparse_diff(raw, q2r, bs)
                    if df: bad.append('all-data qcow2->raw differs from the direct all-data raw image at blocks %s' % df[:8])
                    cmpM(q2r, 'all-data qcow2->raw image')
        if sha(p) != h0: bad.append('e2image modified its source')
        m.close(); f.close()
    except Exception as e:
        return (cid, 'skip', 'big source not readable by xck: %r' % e, 0)
    finally:
        for x in (p, raw, qc, q2r):
            if os.path.exists(x): os.unlink(x)
    return (cid, 'bad' if bad else 'ok', bad, n)

def sha(path):
    import hashlib
    h = hashlib.sha256()
    for a, b in data_extents(path):
        with open(path, 'rb') as f:
            f.seek(a)
            while a < b:
                x = f.read(min(1 << 22, b - a)); h.update(b'%d:' % a); h.update(x); a += len(x)
    return h.hexdigest()

def main(tier, only=None):
    global E2IMAGE, E2FSCK, DUMPE2FS, MKE2FS, ROOT, DEBUGFS
    ck = Check('C19', tier, 'model_checking')
    E2IMAGE = tool('e2image'); E2FSCK = tool('e2fsck'); DUMPE2FS = tool('dumpe2fs'); MKE2FS = tool('mke2fs'); DEBUGFS = tool('debugfs'); fsweep.init_scratch()
    quick = tier == 'quick'
    ROOT = os.path.join(scratch(), 'root'); os.makedirs(ROOT + '/d/e')
    for i in range(6): open(ROOT + '/d/f%d' % i, 'wb').write(bytes((i * 9 + k) & 0xff for k in range(700 * (i + 1))))
    with open(ROOT + '/sparse', 'wb') as f: f.seek(300 * 1024); f.write(b'end')
    for i in range(40): open(ROOT + '/d/e/%s%02d' % ('n' * 60, i), 'w').close()
    os.symlink('x' * 100, ROOT + '/slow'); os.symlink('short', ROOT + '/fast'); os.mkfifo(ROOT + '/d/fifo'); os.mknod(ROOT + '/d/chr', 0o600 | 0o020000, os.makedev(1, 3))
    jobs = [('corpus/%s' % b, 'corpus', b) for b in fsweep.CORPUS + ['needsrec']]
    for kind in (['ext4csum', 'ext2'] if quick else ['ext4csum', 'ext2', 'ext4']):
        lo = 1560 if kind == 'ext4csum' else 420
        for size in (range(lo, lo + 1100) if not quick else list(range(lo, lo + 1100, 3)) + [k * 128 + d for k in range(2, 19) for d in (-1, 0, 1)] + [k * 512 + d for k in range(1, 5) for d in (-1, 0, 1)]):
            if size >= lo: jobs.append(('size/%s/%d' % (kind, size), 'size', (kind, size)))
    bigjobs = [('bigoff/%s' % k, 'big', k) for k in (['big4g', 'manyl2', 'manyl2_ext2'] if quick else list(BIG))]
    bigres = pmap(job_big, bigjobs, chunksize=1)
    res = pmap(job, jobs, chunksize=2)
    res = bigres + res; jobs = bigjobs + jobs
    runs = ok = skip = 0
    skipwhy = {}
    for (cid, st, bad, n), j in zip(res, jobs):
        runs += n
        if st == 'skip': skip += 1; skipwhy[bad[:40]] = skipwhy.get(bad[:40], 0) + 1; continue
        if st == 'ok': ok += 1
        for b in (bad or []):
            ck.violation('%s :: %s' % (cid, b[:60]), {'case': cid, 'what': b})
    ck.add(evaluations=runs, distinct_nontrivial=ok, states=len(jobs), transitions=runs, traces_validated_against_impl=runs,
           rule='source = every corpus image + a populated filesystem of every size in a 1100-block window (quick: every 3rd size plus +-1 around every multiple of 128 and 512 blocks, i.e. qcow2 L2-table and refcount-block boundaries); '
                'every source first gets external attribute blocks on its fast symlinks, device nodes, fifos and small files (debugfs ea_set); plus filesystems of 640-700 groups whose images need more than 512 qcow2 L2 tables (metadata and all-data images), plus sparse filesystems whose group metadata lies above byte offsets 2^31 and 2^32 (4k blocks without flex_bg; thorough: also 1k-block ext2 and bigalloc); per source: e2image -r, -Q, -Q then -r, -ra; oracle: metadata block set (computed by xck) byte-identical, e2fsck -fn and dumpe2fs outputs identical, qcow2->raw == raw, -ra tree identical, source unchanged',
           samples=[jobs[0][0], jobs[20][0], jobs[-1][0]])
    ck.cov['sources_skipped'] = skip; ck.cov['skip_reasons'] = skipwhy
    ck.assumptions += ['size-sweep sources are made with the tree\'s own mke2fs -d; they are only used differentially (source vs image)']
    return ck.finish()

def replay(path):
    d = json.load(open(path)); print(json.dumps(d['detail'], indent=1)[:3000]); return 1
