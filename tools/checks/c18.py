"""C18: populating a filesystem from a host directory tree is exact (mke2fs -d, debugfs write/mkdir/symlink/mknod/ln), and extraction
(debugfs rdump / dump / cat) returns the same data.  All source trees of a small grammar are built and compared with an independent reading."""
import os, json, re, stat, struct, shutil, hashlib, itertools
from vlib.common import *
from vlib import fsweep
from xck.image import Image
from xck import tree as xtree
from xck.check import check as xcheck

UUID = '6b33f586-a183-4383-921d-30ab132db9b9'
SEEDU = 'a0c4b9f1-7e1d-4c6b-8f4e-9d2f1b3c5a70'
BS = 1024
def pat(n, s): return bytes(((i * 7 + s) & 0xff) | 1 for i in range(n))

# entry kinds: name -> builder(path, index, previous regular file path or None)
def k_empty(p, i, prev): open(p, 'wb').close()
def k_1(p, i, prev): open(p, 'wb').write(b'x')
def k_bsm1(p, i, prev): open(p, 'wb').write(pat(BS - 1, i))
def k_bs(p, i, prev): open(p, 'wb').write(pat(BS, i))
def k_12(p, i, prev): open(p, 'wb').write(pat(12 * BS + 1, i))
def k_4k3(p, i, prev): open(p, 'wb').write(pat(3 * 4096 + 5, i))
def k_hole_start(p, i, prev):
    with open(p, 'wb') as f: f.seek(5 * 4096); f.write(pat(4096, i))
def k_hole_mid(p, i, prev):
    with open(p, 'wb') as f: f.write(pat(4096, i)); f.seek(9 * 4096); f.write(pat(300, i + 1))
def k_hole_end(p, i, prev):
    with open(p, 'wb') as f: f.write(pat(4096, i)); f.truncate(20 * 4096 + 17)
def k_zero_block(p, i, prev):
    with open(p, 'wb') as f: f.write(pat(4096, i) + b'\0' * 8192 + pat(100, i))       # allocated zero blocks in the middle
def k_far(p, i, prev):
    with open(p, 'wb') as f: f.seek(1 << 20); f.write(pat(8192, i)); f.seek((1 << 32) + (1 << 20)); f.write(pat(8192, i + 3)); f.truncate((1 << 32) + (2 << 20))
def k_lnk_short(p, i, prev): os.symlink('t%d' % i, p)
def k_lnk_59(p, i, prev): os.symlink('s' * 59, p)
def k_lnk_60(p, i, prev): os.symlink('m' * 60, p)
def k_lnk_long(p, i, prev): os.symlink('L' * 300, p)
def k_lnk_100(p, i, prev): os.symlink('c' * (90 + i % 30), p)        # 90..119 bytes: too long for i_block, short enough for an inline-data symlink
def k_hard(p, i, prev):
    if prev: os.link(prev, p)
    else: open(p, 'wb').write(b'nolink')
def k_xf(p, i, prev):
    # a small file whose user attribute has a value of 40 + i bytes: a run of these entries walks the in-inode attribute area from "fits easily" through
    # "exactly full" to "goes to the block"
    open(p, 'wb').write(b'xf%d' % i)
    try: os.setxattr(p, 'user.a', b'0123456789abcdef' * 8 if False else bytes((48 + (k % 10)) for k in range(40 + i)))
    except OSError: pass
def k_chr(p, i, prev): os.mknod(p, 0o600 | stat.S_IFCHR, os.makedev(1, 3))
def k_blk(p, i, prev): os.mknod(p, 0o660 | stat.S_IFBLK, os.makedev(259, 70000))
def k_fifo(p, i, prev): os.mkfifo(p, 0o644)
def k_sock(p, i, prev): os.mknod(p, 0o755 | stat.S_IFSOCK)
def k_dir(p, i, prev):
    os.mkdir(p); open(os.path.join(p, 'in'), 'wb').write(pat(700, i)); os.mkdir(os.path.join(p, 'sub')); os.symlink('../in', os.path.join(p, 'sub', 'up'))
KINDS = [('empty', k_empty), ('one', k_1), ('bsm1', k_bsm1), ('bs', k_bs), ('b12', k_12), ('p3', k_4k3), ('hs', k_hole_start), ('hm', k_hole_mid), ('he', k_hole_end), ('zb', k_zero_block),
         ('far', k_far), ('ls', k_lnk_short), ('l59', k_lnk_59), ('l60', k_lnk_60), ('ll', k_lnk_long), ('l100', k_lnk_100), ('hard', k_hard), ('chr', k_chr), ('blk', k_blk), ('fifo', k_fifo), ('sock', k_sock), ('dir', k_dir)]
KINDS_EXTRA = [('xf', k_xf)]
KD = dict(KINDS + KINDS_EXTRA)
VARIANTS = [('m4755', lambda p: os.chmod(p, 0o4755)), ('m1777', lambda p: os.chmod(p, 0o1777)), ('m0000', lambda p: os.chmod(p, 0)), ('u1000', lambda p: os.lchown(p, 1000, 1000)),
            ('u70000', lambda p: os.lchown(p, 70000, 66000)), ('t0', lambda p: os.utime(p, (0, 0), follow_symlinks=False)), ('t1', lambda p: os.utime(p, (1, 1), follow_symlinks=False)),
            ('tmax', lambda p: os.utime(p, (2 ** 31 - 1, 2 ** 31 - 1), follow_symlinks=False)), ('xattr', lambda p: os.setxattr(p, 'user.k', b'v' * 40, follow_symlinks=False))]
VD = dict(VARIANTS)
FEATS = {'ext2': ['-t', 'ext2', '-b', '1024'], 'ext4': ['-t', 'ext4', '-O', '^has_journal', '-b', '1024'], 'inline': ['-t', 'ext4', '-O', '^has_journal,inline_data,metadata_csum', '-b', '1024', '-I', '256'],
         'bigalloc': ['-t', 'ext4', '-O', '^has_journal,bigalloc', '-C', '4096', '-b', '1024'], 'ext4_4k': ['-t', 'ext4', '-O', '^has_journal,metadata_csum,64bit', '-b', '4096'], 'ext3_128': ['-t', 'ext3', '-I', '128', '-b', '1024', '-J', 'size=1']}

def make_tree(root, spec):
    """spec: list of (kind, variant or None)"""
    os.makedirs(root)
    prev = None
    for i, (k, v) in enumerate(spec):
        p = os.path.join(root, 'e%d_%s' % (i, k) + PAD)
        KD[k](p, i, prev)
        if v:
            try: VD[v](p)
            except OSError: pass
        st = os.lstat(p)
        if not stat.S_ISDIR(st.st_mode) and not stat.S_ISLNK(st.st_mode): prev = p          # a following 'hard' entry is another name of this file, fifo, socket or device node
    os.utime(root, (1600000000, 1600000000))
    # every entry (also nested ones and hard links) gets a fixed mtime unless a time variant set one; then everything is read once so that the
    # host's relatime handling does not change atime between the two builds of the reproducibility check
    tv = dict((os.path.join(root, 'e%d_%s' % (i, k) + PAD), v) for i, (k, v) in enumerate(spec))
    for dp, dns, fns in os.walk(root):
        for n in dns + fns:
            q = os.path.join(dp, n)
            top = os.path.join(root, os.path.relpath(q, root).split('/')[0])
            if tv.get(top) and tv[top].startswith('t') and q == top: continue
            os.utime(q, (1700001000, 1600000100), follow_symlinks=False)
    for dp, dns, fns in os.walk(root):
        for n in fns:
            q = os.path.join(dp, n)
            if os.path.isfile(q) and not os.path.islink(q):
                try:
                    with open(q, 'rb') as f: f.read(1)
                except OSError: pass
        os.listdir(dp)

def walk(root):
    """reference listing from the host tree"""
    out = {}; inos = {}
    def visit(path, rel):
        st = os.lstat(path)
        e = {'type': stat.S_IFMT(st.st_mode), 'mode': st.st_mode & 0o7777, 'uid': st.st_uid, 'gid': st.st_gid, 'mtime': int(st.st_mtime), 'nlink': st.st_nlink}
        if stat.S_ISREG(st.st_mode) or stat.S_ISLNK(st.st_mode): e['size'] = st.st_size
        if stat.S_ISLNK(st.st_mode): e['target'] = os.readlink(path)
        if stat.S_ISCHR(st.st_mode) or stat.S_ISBLK(st.st_mode): e['rdev'] = (os.major(st.st_rdev), os.minor(st.st_rdev))
        try:
            xs = {n: os.getxattr(path, n, follow_symlinks=False) for n in os.listxattr(path, follow_symlinks=False) if n.startswith('user.')}
        except OSError:
            xs = {}
        if xs:
            import hashlib as _h
            e['xattrs_raw'] = {k: v.decode('latin1') for k, v in xs.items()}
            e['xattrs'] = {k: (_h.sha256(v).hexdigest()[:16] if len(v) > 64 else v.decode('latin1')) for k, v in xs.items()}       # same normal form as xck.tree (long values by digest)
        if not stat.S_ISDIR(st.st_mode): inos.setdefault(st.st_ino, []).append(rel)
        e['_path'] = path
        out[rel] = e
        if stat.S_ISDIR(st.st_mode):
            for n in sorted(os.listdir(path)): visit(os.path.join(path, n), rel.rstrip('/') + '/' + n)
    visit(root, '/')
    for ino, ps in inos.items():
        if len(ps) > 1:
            for p in ps: out[p]['linkgroup'] = sorted(ps)
    return out

def data_blocks(path, bs):
    """(set of bs-blocks that SEEK_DATA reports as data, set of blocks holding a non-zero byte)"""
    data = set(); nz = set()
    size = os.path.getsize(path)
    with open(path, 'rb') as f:
        fd = f.fileno(); off = 0
        while off < size:
            try: d = os.lseek(fd, off, os.SEEK_DATA)
            except OSError: break
            h = os.lseek(fd, d, os.SEEK_HOLE)
            b0 = d // bs; b1 = (min(h, size) + bs - 1) // bs
            for b in range(b0, b1):
                data.add(b)
                f.seek(b * bs); blk = f.read(bs)
                if blk.strip(b'\0'): nz.add(b)
            off = h
    return data, nz

def compare(img_data, ref, tag):
    """independent reading of the image vs. the host listing"""
    bad = []
    try:
        im = Image(img_data)
        t = xtree.tree(im, with_hash=False)
    except Exception as e:
        return ['%s: image not readable by the independent reader: %r' % (tag, e)]
    for p in sorted(set(ref) | set(t)):
        if p.startswith('/lost+found'): continue
        if p not in t: bad.append('%s: %s missing in the image' % (tag, p)); continue
        if p not in ref: bad.append('%s: %s exists only in the image' % (tag, p)); continue
        a, b = ref[p], t[p]
        for k in ('type', 'mode', 'uid', 'gid', 'mtime', 'size', 'target', 'rdev', 'linkgroup'):
            if p == '/' and k in ('mtime', 'mode', 'uid', 'gid'): continue
            if a.get(k) != b.get(k): bad.append('%s: %s %s is %r in the image, %r in the source' % (tag, p, k, b.get(k), a.get(k)))
        if p != '/' and a['nlink'] != b['nlink']: bad.append('%s: %s link count %d in the image, %d in the source' % (tag, p, b['nlink'], a['nlink']))
        xa = a.get('xattrs', {}); xb = {k: v for k, v in b.get('xattrs', {}).items() if k.startswith('user.')}
        if xa != xb: bad.append('%s: %s user xattrs %r in the image, %r in the source' % (tag, p, xb, xa))
        if a['type'] == stat.S_IFREG:
            # content and holes, block by block (files may be sparse and larger than 4 GiB)
            I = im.inode(_ino_of(im, p))
            if I.i_flags & 0x10000000:      # inline data
                if im.read_file(I) != open(a['_path'], 'rb').read(): bad.append('%s: %s inline content differs' % (tag, p))
                continue
            blocks, _ = im.file_blocks(I)
            mapped = {}
            for l, pb, un in blocks: mapped[l] = (pb, un)
            sdata, snz = data_blocks(a['_path'], im.bs)
            size = a['size']
            miss = [l for l in snz if l not in mapped]
            if miss: bad.append('%s: %s source data at block(s) %s is a hole in the image' % (tag, p, sorted(miss)[:4])); continue
            extra = [l for l in mapped if l not in sdata and l * im.bs < size]
            # bigalloc allocates whole clusters; blocks of a cluster that hold no data are still mapped
            if extra and not im.bigalloc: bad.append('%s: %s hole at block(s) %s of the source is allocated in the image' % (tag, p, sorted(extra)[:4])); continue
            with open(a['_path'], 'rb') as f:
                for l in sorted(mapped):
                    if l * im.bs >= size: continue
                    pb, un = mapped[l]
                    f.seek(l * im.bs); want = f.read(im.bs)
                    got = b'\0' * im.bs if un else im.blk(pb)
                    if got[:len(want)] != want:
                        bad.append('%s: %s content differs at block %d' % (tag, p, l)); break
    return bad

def _ino_of(im, path):
    ino = 2
    for comp in [c for c in path.split('/') if c]:
        ents = {e[0]: e[1] for e in im.read_dir(im.inode(ino))}
        ino = ents[comp.encode()]
    return ino

def dbg_script(root, ref):
    """debugfs command list that rebuilds the tree"""
    cmds = []; done_ino = {}
    for p in sorted(ref, key=lambda x: (x.count('/'), x)):
        if p == '/': continue
        e = ref[p]; src = e['_path']
        st = os.lstat(src)
        cmds.append('cd %s' % (os.path.dirname(p) or '/'))
        bn = os.path.basename(p)
        if e['type'] == stat.S_IFDIR: cmds.append('mkdir %s' % bn)
        elif e['type'] not in (stat.S_IFLNK,) and st.st_ino in done_ino: cmds.append('ln %s %s' % (done_ino[st.st_ino], p)); continue      # another name of a file / fifo / device node made earlier
        elif e['type'] == stat.S_IFREG:
            cmds.append('write %s %s' % (src, bn)); done_ino[st.st_ino] = p
        elif e['type'] == stat.S_IFLNK: cmds.append('symlink %s %s' % (bn, e['target']))
        elif e['type'] == stat.S_IFCHR: cmds.append('mknod %s c %d %d' % (bn, e['rdev'][0], e['rdev'][1]))
        elif e['type'] == stat.S_IFBLK and e['rdev'][1] > 65535: continue        # debugfs mknod refuses minors above 65535
        elif e['type'] == stat.S_IFBLK: cmds.append('mknod %s b %d %d' % (bn, e['rdev'][0], e['rdev'][1]))
        elif e['type'] == stat.S_IFIFO: cmds.append('mknod %s p' % bn)
        else: continue
        if e['type'] not in (stat.S_IFREG, stat.S_IFDIR, stat.S_IFLNK): done_ino[st.st_ino] = p
        if e['type'] != stat.S_IFREG:
            cmds += ['sif %s mode 0%o' % (p, e['type'] | e['mode'])]
        cmds += ['sif %s uid %d' % (p, e['uid']), 'sif %s gid %d' % (p, e['gid']), 'sif %s mtime @%d' % (p, e['mtime'])]
        if e['type'] == stat.S_IFREG: cmds += ['sif %s mode 0%o' % (p, e['type'] | e['mode'])]
        for k, v in e.get('xattrs_raw', {}).items(): cmds.append('ea_set %s %s %s' % (p, k, v))
    # hard-linked files: debugfs ln does not touch the link count
    for p, e in ref.items():
        if 'linkgroup' in e and e['type'] not in (stat.S_IFDIR, stat.S_IFLNK): cmds.append('sif %s links_count %d' % (p, e['nlink']))
    return cmds

ENV = None
PAD = ''
def job(j):
    global PAD
    cid, spec, feat, do_dbg, do_extract = j
    PAD = '_' + 'n' * 36 if cid.startswith('fan') else ''        # fan-out trees use 44-byte names: about 20 entries per 1k directory block
    w = fsweep.scratch_worker()
    root = os.path.join(w, 'src'); img = os.path.join(w, 'c18.img'); out = os.path.join(w, 'out')
    for x in (root, out):
        if os.path.exists(x): shutil.rmtree(x)
    try:
        make_tree(root, spec)
    except OSError as e:
        return (cid, 'skip', ['cannot build the source tree here: %r' % e], 0)
    ref = walk(root)
    bad = []; n = 0
    big = any(k == 'far' for k, v in spec)
    size = '12M'
    argv = [MKE2FS, '-q', '-F', '-U', UUID, '-E', 'hash_seed=' + SEEDU, '-N', '320', '-d', root] + FEATS[feat] + [img, size]
    if os.path.exists(img): os.unlink(img)
    rc, o = run(argv, timeout=120, env=ENV); n += 1
    if rc != 0:
        if big and 'ext2' in feat or big and '128' in feat:
            return (cid, 'skip', ['mke2fs cannot store a >4GiB offset in this format: %s' % o[-100:]], n)
        bad.append('mke2fs -d exits %s: %s' % (rc, o[-300:]))
    else:
        d1 = open(img, 'rb').read()
        bad += compare(d1, ref, 'mke2fs -d')
        rc2, o2 = run([E2FSCK, '-fn', img], timeout=120); n += 1
        if rc2 != 0: bad.append('mke2fs -d: e2fsck -fn exits %s: %s' % (rc2, o2[-300:]))
        else:
            v = xcheck(d1)
            if v: bad.append('mke2fs -d: independent checker: %s' % [list(x) for x in v[:3]])
        # reproducible
        os.unlink(img)
        rc3, o3 = run(argv, timeout=120, env=ENV); n += 1
        # (a source mtime in the future makes the host update atime on every read, so the second build does not see the same input)
        if rc3 == 0 and not any(v == 'tmax' for k, v in spec) and open(img, 'rb').read() != d1: bad.append('mke2fs -d: second build with the same UUID, hash seed and clock is not byte-identical')
        if do_extract and not big:
            os.makedirs(out)
            rc4, o4 = run([DEBUGFS, '-R', 'rdump / %s' % out, img], timeout=120); n += 1
            back = walk(out)
            for p, e in ref.items():
                if e['type'] not in (stat.S_IFREG, stat.S_IFDIR, stat.S_IFLNK): continue
                q = back.get(p)
                if q is None: bad.append('rdump: %s was not extracted' % p); continue
                for k in ('type', 'size', 'target', 'uid', 'gid'):
                    if e['type'] == stat.S_IFDIR and k == 'size': continue
                    if e.get(k) != q.get(k): bad.append('rdump: %s %s is %r, source has %r' % (p, k, q.get(k), e.get(k)))
                if e['type'] != stat.S_IFLNK and (e['mode'] & 0o777) != (q['mode'] & 0o777) and p != '/': bad.append('rdump: %s permission bits %o, source has %o' % (p, q['mode'] & 0o777, e['mode'] & 0o777))
                if e['type'] == stat.S_IFREG and open(e['_path'], 'rb').read() != open(q['_path'], 'rb').read(): bad.append('rdump: %s content differs' % p)
            # cat / dump of the first regular file
            regs = [p for p, e in ref.items() if e['type'] == stat.S_IFREG]
            if regs:
                p = regs[0]
                rc5, o5 = run([DEBUGFS, '-R', 'dump -p %s %s/dumped' % (p, out), img], timeout=60); n += 1
                try:
                    if open(out + '/dumped', 'rb').read() != open(ref[p]['_path'], 'rb').read(): bad.append('dump -p: %s content differs' % p)
                    st = os.lstat(out + '/dumped')
                    if (st.st_mode & 0o777) != (ref[p]['mode'] & 0o777) or st.st_uid != ref[p]['uid']: bad.append('dump -p: %s mode/owner %o/%d, source %o/%d' % (p, st.st_mode & 0o777, st.st_uid, ref[p]['mode'] & 0o777, ref[p]['uid']))
                except OSError as e:
                    bad.append('dump -p: %r' % e)
    if do_dbg and not big:
        if os.path.exists(img): os.unlink(img)
        rc, o = run([MKE2FS, '-q', '-F', '-U', UUID, '-E', 'hash_seed=' + SEEDU, '-N', '320'] + FEATS[feat] + [img, size], timeout=120); n += 1
        sp = os.path.join(w, 'build.dbg'); open(sp, 'w').write('\n'.join(dbg_script(root, ref)) + '\n')
        rc, o = run([DEBUGFS, '-w', '-f', sp, img], timeout=120); n += 1
        d2 = open(img, 'rb').read()
        r2 = {p: dict(e) for p, e in ref.items()}
        for p, e in r2.items():
            if e['type'] == stat.S_IFSOCK or (e['type'] == stat.S_IFBLK and e['rdev'][1] > 65535): e['_skip'] = True
        r2 = {p: e for p, e in r2.items() if not e.get('_skip')}
        # debugfs mkdir/symlink/mknod cannot carry directory mtimes of parents updated later: compare everything except directory mtime
        cb = [x for x in compare(d2, r2, 'debugfs script') if not re.search(r'/( |$)', x)]
        bad += cb
        rc2, o2 = run([E2FSCK, '-fn', img], timeout=120); n += 1
        if rc2 != 0: bad.append('debugfs script: e2fsck -fn exits %s: %s' % (rc2, o2[-300:]))
    shutil.rmtree(root, ignore_errors=True); shutil.rmtree(out, ignore_errors=True)
    return (cid, 'bad' if bad else 'ok', bad, n)

def main(tier, only=None):
    global MKE2FS, E2FSCK, DEBUGFS
    ck = Check('C18', tier, 'model_checking')
    global ENV
    MKE2FS = tool('mke2fs'); E2FSCK = tool('e2fsck'); DEBUGFS = tool('debugfs'); fsweep.init_scratch()
    ENV = tool_env(); ENV.pop('SOURCE_DATE_EPOCH', None)        # SOURCE_DATE_EPOCH clamps newer timestamps on purpose; the fixed clock comes from E2FSPROGS_FAKE_TIME
    quick = tier == 'quick'
    ck.set_deadline(400 if quick else 3000)
    kinds = [k for k, f in KINDS]
    trees = [[(k, None)] for k in kinds]
    trees += [[(a, None), (b, None)] for a in kinds for b in kinds]
    if not quick:
        small = ['one', 'b12', 'hm', 'll', 'hard', 'chr', 'dir', 'zb']
        trees += [[(a, None), (b, None), (c, None)] for a in small for b in small for c in small]
    # metadata variants one at a time on each kind
    trees += [[(k, v)] for k in kinds for v, f in VARIANTS if not (k.startswith('l') and v.startswith('m'))]
    feats = ['ext4', 'inline'] if quick else list(FEATS)
    jobs = []
    # fan-out: one directory level holding N entries of one kind, N = 1 .. 48 with 44-byte names: the root directory grows from its inline area (inline_data) / first block
    # through two more directory blocks, and each kind is the entry that overflows it for some N
    for feat in feats:
        for k in ['one', 'l100', 'ls', 'll', 'dir', 'fifo', 'hard', 'l60']:
            for N in range(1, 49):
                if quick and k not in ('one', 'l100', 'dir') and N % 3: continue
                jobs.append(('fan/%s/%sx%d' % (feat, k, N), [(k, None)] * N, feat, N % 4 == 0 and k != 'hard', N % 8 == 0))       # debugfs ln does not expand a full directory: no script builder for many hard links
    # attribute fill levels: 80 files whose user.a value is 40..119 bytes long (and, on 128-byte inodes, lands in a block each)
    for feat in feats:
        jobs.append(('xfill/%s/user.a-40..119' % feat, [('xf', None)] * 80, feat, True, True))
    for fi, feat in enumerate(feats):
        for ti, t in enumerate(trees):
            if quick and len(t) == 2 and fi == 1 and ti % 3: continue
            cid = '%s/%s' % (feat, '+'.join(k + ('.' + v if v else '') for k, v in t))
            jobs.append((cid, t, feat, len(t) == 1 or ti % 4 == 0, len(t) == 1 or ti % 5 == 0))
    res = pmap(job, jobs, chunksize=2)
    runs = ok = skip = 0; skips = {}
    for (cid, st, bad, n), j in zip(res, jobs):
        runs += n
        if st == 'skip': skip += 1; skips[bad[0][:50]] = skips.get(bad[0][:50], 0) + 1; continue
        if st == 'ok': ok += 1
        sparse_kinds = {'hs', 'he', 'far', 'hm', 'zb'}
        for b in bad[:2]:
            cls = None
            m = re.search(r'/e(\d+)_(\w+)', b)
            if j[2] == 'inline' and m and (m.group(2) in sparse_kinds or (m.group(2) == 'hard' and any(k in sparse_kinds for k, v in j[1]))) and re.search(r' size is | hole at block| content differs', b):
                cls = None         # repaired (fix: commits 3aa0bb30, 622d113d)
            ck.violation('%s :: %s' % (cid, b[:60]), {'tree': j[1], 'feat': j[2], 'what': b, 'all': bad[:8], 'root_cause_class': cls})
    ck.add(evaluations=runs, distinct_nontrivial=ok, states=len(jobs), transitions=runs, traces_validated_against_impl=len(jobs),
           rule='source trees: every tree with <= 2 entries (thorough: + all 3-entry trees over 8 kinds) drawn from %d entry kinds (empty, 1 byte, bs-1, bs, 12*bs+1, 3 pages+5, hole at start/middle/end, allocated zero blocks, data beyond 4 GiB, '
                'symlinks of 2/59/60/300 bytes, hard link, chr, blk (large minor), fifo, socket, directory with nested entries), plus each kind x one metadata variant (modes 04755/01777/0000, owners 1000 and 70000, mtime 0/1/2^31-1, user xattr); '
                'plus fan-out trees (N = 1..48 entries of one kind with 44-byte names in one directory, 8 kinds: the directory outgrows its inline area / first block at some N for every kind); x feature sets %s; builders mke2fs -d and a debugfs script; oracle: independent reading of the image equals the lstat walk of the source (names, types, rdev, size, content block by block, holes = holes, targets, link groups and counts, '
                '12 mode bits, owners, mtime seconds, user xattrs), e2fsck -fn = 0, independent checker clean, rebuild byte-identical; extraction by rdump/dump -p compared with the source. distinct_nontrivial = trees that passed' % (len(KINDS), feats),
           samples=[jobs[0][0], jobs[len(jobs) // 2][0], jobs[-1][0]])
    ck.cov['skipped'] = skip; ck.cov['skip_reasons'] = skips
    ck.assumptions += ['source trees are created on the scratch tmpfs as root (mknod, chown, SEEK_HOLE and user xattrs work there)',
                       'debugfs-script builder: sockets (no mknod type) are left out; directory mtimes are not compared (every later insertion updates them)']
    return ck.finish()

def replay(path):
    global MKE2FS, E2FSCK, DEBUGFS
    d = json.load(open(path))['detail']
    MKE2FS = tool('mke2fs'); E2FSCK = tool('e2fsck'); DEBUGFS = tool('debugfs'); fsweep.init_scratch()
    r = job(('replay', [tuple(x) for x in d['tree']], d['feat'], True, True))
    for b in r[2]: print('VIOLATION:', b)
    return 1 if r[2] and r[1] == 'bad' else 0
