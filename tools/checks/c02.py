"""C02: a clean `e2fsck -fn` verdict implies consistency as judged by the independent checker xck."""
import os, json, time
from vlib.common import *
from vlib import fsweep
from xck.check import check as xcheck

def pipeline(job):
    mid, name, parts = job
    data = fsweep.make_multi(name, parts)
    p = fsweep.worker_path()
    with open(p, 'wb') as f: f.write(data)
    log1 = p + '.p1'
    if os.path.exists(log1): os.unlink(log1)
    rc, out = run([E2FSCK, '-fn', '-E', 'problem_log=' + log1, p], timeout=30)
    if rc != 0:
        return (mid, 'rejected', rc, [], [], '')
    probs = fsweep.read_problem_log(log1)
    v = xcheck(data)
    if not v:
        return (mid, 'ok', rc, [c for c, a in probs], [], '')
    return (mid, 'ACCEPTED_INCONSISTENT', rc, [c for c, a in probs], [list(x) for x in v[:8]], out[-1200:])

def scenarios():
    """coordinated multi-object inconsistencies that no one- or two-field change reaches, prepared with debugfs on corpus images:
    -> [(case id, image bytes)]"""
    from xck.image import Image
    out = []
    DBG = tool('debugfs')
    for base in ('ext4', 'ext2', 'ext4csum'):
        d0 = fsweep.base_data(base); rl = Image(d0).inode(2).i_links_count
        scen = {
            # two directories that are each other's parent and only reference, cut off from the root (link counts and '..' all agree)
            'detached-dir-cycle-2': ['mkdir /A', 'mkdir /A/B', 'ln /A /A/B/A', 'unlink /A/..', 'ln /A/B /A/..', 'sif /A/B links_count 3', 'sif / links_count %d' % rl, 'unlink /A'],
            # three directories in a ring
            'detached-dir-cycle-3': ['mkdir /A', 'mkdir /A/B', 'mkdir /A/B/C', 'ln /A /A/B/C/A', 'unlink /A/..', 'ln /A/B/C /A/..', 'sif /A/B/C links_count 3', 'sif / links_count %d' % rl, 'unlink /A'],
            # a directory that is its own parent and holds the only reference to itself
            'detached-dir-self-loop': ['mkdir /A', 'ln /A /A/self', 'unlink /A/..', 'ln /A /A/..', 'sif /A links_count 3', 'sif / links_count %d' % rl, 'unlink /A'],
            # a regular file whose only directory entry is removed while its link count stays 1 (orphan without being on the orphan list)
            'unreferenced-file': ['unlink /one', 'unlink /hard'],
            # a subtree cut off by removing the entry of its top directory only
            'detached-subtree': ['unlink /d1', 'sif / links_count %d' % (rl - 1)],
        }
        for name, cmds in scen.items():
            p = fsweep.worker_path('scen')
            with open(p, 'wb') as f: f.write(d0)
            sp = p + '.dbg'; open(sp, 'w').write('\n'.join(cmds) + '\n')
            run([DBG, '-w', '-f', sp, p], timeout=60)
            out.append(('scenario/%s/%s' % (base, name), open(p, 'rb').read()))
    return out

def scen_pipeline(job):
    cid, data = job
    p = fsweep.worker_path()
    with open(p, 'wb') as f: f.write(data)
    rc, out = run([E2FSCK, '-fn', p], timeout=30)
    if rc != 0: return (cid, 'rejected', rc, [], '')
    v = xcheck(data)
    return (cid, 'ACCEPTED_INCONSISTENT' if v else 'ok', rc, [list(x) for x in v[:8]], out[-1200:])

def toolop_pipeline(job):
    """tool-written family: a state produced by the tree's own writers (one debugfs / tune2fs / resize2fs / e2fsck / mke2fs operation on a corpus image, C14's menu);
    if e2fsck -fn accepts it, the independent checker must too -- this is where a writer and a verifier that share a mistake show"""
    name, label, cmds = job
    p = fsweep.worker_path('top')
    if name:
        with open(p, 'wb') as f: f.write(fsweep.base_data(name))
    elif os.path.exists(p): os.unlink(p)
    for argv in cmds:
        argv = [a.replace('{img}', p).replace('{dir}', os.path.dirname(p)) for a in argv]
        rc, out = run(argv, timeout=60)
        if 'tune2fs' in argv[0] and ('run e2fsck -f' in out or 'Please run e2fsck' in out):
            run([E2FSCK, '-fyD', p], timeout=60)
    try: data = open(p, 'rb').read()
    except OSError: return ('%s/%s' % (name, label), 'rejected', 0, [], '')
    rc, out = run([E2FSCK, '-fn', p], timeout=60)
    cid = 'toolop/%s/%s' % (name, label)
    if rc != 0: return (cid, 'rejected', rc, [], '')
    try: v = xcheck(data)
    except Exception as e: v = [('S', 'unreadable', repr(e))]
    return (cid, 'ACCEPTED_INCONSISTENT' if v else 'ok', rc, [list(x) for x in v[:8]], out[-800:])

def classify(codes, viol, out):
    """root-cause classes that are genuine, recorded defects of the tree (see known_findings.json / DESIGN.md)"""
    vc = set(x[1] for x in viol)
    if any(c < 0x010000 for c in codes):
        return 'pass0-problem-declined-but-exit-0'
    if 'trying backup blocks' in out:
        return 'primary-superblock-unusable-backup-used-exit-0'
    if 'block_bitmap_clear_for_uninit_group_metadata' in vc and vc <= set(['block_bitmap_clear_for_uninit_group_metadata', 'bbitmap_csum', 'gd_free_blocks']):
        return 'uninit-group-metadata-bits-forced-on-load'
    if any(x[1] == 'inode_structure' and x[2].endswith(': extent depth') for x in viol):
        return 'child-extent-block-eh_depth-never-checked'
    return None

def main(tier, only=None):
    global E2FSCK
    ck = Check('C02', tier, 'fault_enumeration')
    E2FSCK = tool('e2fsck')
    fsweep.init_scratch()
    bases = [b for b in only if b not in ('geom', 'scen', 'toolop')] if only else (fsweep.QUICK_BASES if tier == 'quick' else fsweep.SWEEP_BASES)
    ck.set_deadline(330 if tier == 'quick' else 2700)
    total = accepted = 0
    per = {}; viol_classes = {}
    sample = []
    # geometry family first (cheap): every in-use inode of filesystems whose inode tables have every size 1..18 blocks per group, in every group
    if not only or 'geom' in only:
        from vlib import geom
        gb = geom.build_geom(tier == 'quick')
        gj = [(mid, name, parts) for name in gb for mid, parts in geom.inode_mutants(name)]
        res = pmap(pipeline, gj, chunksize=16)
        gacc = 0
        for (mid, st, rc, codes, v, out), job in zip(res, gj):
            total += 1
            if st == 'rejected': continue
            gacc += 1
            if st == 'ACCEPTED_INCONSISTENT':
                ck.violation(mid, {'base': job[1], 'parts': job[2], 'e2fsck_fn_exit': rc, 'problem_codes_printed': ['0x%06x' % c for c in codes], 'xck_violations': v,
                                   'root_cause_class': classify(codes, v, out), 'e2fsck_output': out, 'runtime_base': True})
        accepted += gacc
        per['geometry_family'] = {'images': len(gb), 'per_inode_mutants': len(gj), 'accepted_by_e2fsck_fn': gacc}
        if len(gb) < 4: ck.violation('geometry-family:vacuous', {'what': 'fewer than 4 geometry images could be built with the tree\'s mke2fs/debugfs', 'built': gb})
    if not only or 'scen' in only:
        sj = scenarios()
        nincons = 0
        for cid, st, rc, v, out in pmap(scen_pipeline, sj, chunksize=1):
            total += 1
            if st == 'rejected': nincons += 1; continue
            accepted += 1
            if st == 'ACCEPTED_INCONSISTENT':
                ck.violation(cid, {'scenario': cid, 'e2fsck_fn_exit': rc, 'xck_violations': v, 'e2fsck_output': out, 'root_cause_class': 'detached-directory-cycle' if 'cycle' in cid or 'self-loop' in cid else None})
        per['scenarios'] = {'prepared': len(sj), 'rejected_by_e2fsck_fn': nincons}
    if not only or 'toolop' in only:
        from checks import c14
        TT = {k: tool(k) for k in ('mke2fs', 'debugfs', 'tune2fs', 'resize2fs', 'e2fsck')}
        tj = c14.tool_op_jobs(TT, tier == 'quick')
        nacc = 0
        for cid, st, rc, v, out in pmap(toolop_pipeline, tj, chunksize=1):
            total += 1
            if st == 'rejected': continue
            nacc += 1; accepted += 1
            if st == 'ACCEPTED_INCONSISTENT':
                ck.violation(cid, {'toolop': cid, 'e2fsck_fn_exit': rc, 'xck_violations': v, 'e2fsck_output': out, 'root_cause_class': classify([], v, out)})
        per['tool_written_family'] = {'operations': len(tj), 'accepted_by_e2fsck_fn': nacc}
    for name in bases:
        r0 = pipeline(('%s/k0' % name, name, []))
        if r0[1] != 'ok':
            ck.violation('%s/k0' % name, {'base': name, 'parts': [], 'result': r0[1:], 'what': 'pristine corpus image: e2fsck -fn / xck disagree'})
            continue
        singles = fsweep.mutant_list(name, settle=True)
        jobs = [(mid, name, [(off, size, v, seal)]) for mid, off, size, v, seal in singles]
        res = pmap(pipeline, jobs, chunksize=16)
        acc = 0; reps = {}
        for (mid, st, rc, codes, v, out), job in zip(res, jobs):
            total += 1
            if st == 'rejected': continue
            acc += 1
            if st == 'ACCEPTED_INCONSISTENT':
                cls = classify(codes, v, out)
                ck.violation(mid, {'base': name, 'parts': job[2], 'e2fsck_fn_exit': rc, 'problem_codes_printed': ['0x%06x' % c for c in codes], 'xck_violations': v,
                                   'root_cause_class': cls, 'e2fsck_output': out})
            elif len(reps) < 120 and (mid.split('/')[1].split('.')[0].rstrip('0123456789'), tuple(codes)) not in reps:
                reps[(mid.split('/')[1].split('.')[0].rstrip('0123456789'), tuple(codes))] = singles[jobs.index(job)] if False else job
        accepted += acc
        per[name] = {'k1_mutants': len(jobs), 'accepted_by_e2fsck_fn': acc}
        sample += [jobs[0][0], jobs[len(jobs) // 2][0]]
        if tier == 'thorough' and not ck.expired():
            # k = 2: pairs of accepted-and-consistent representatives (two harmless-looking deviations that only matter together)
            rl = list(reps.values())[:120]
            pj = []
            for i in range(len(rl)):
                for j in range(i + 1, len(rl)):
                    if rl[i][2][0][0] != rl[j][2][0][0]:
                        pj.append((rl[i][0] + ' & ' + rl[j][0].split('/', 1)[1], name, rl[i][2] + rl[j][2]))
            res = pmap(pipeline, pj, chunksize=16)
            for (mid, st, rc, codes, v, out), job in zip(res, pj):
                total += 1
                if st == 'rejected': continue
                accepted += 1
                if st == 'ACCEPTED_INCONSISTENT':
                    ck.violation(mid, {'base': name, 'parts': job[2], 'e2fsck_fn_exit': rc, 'problem_codes_printed': ['0x%06x' % c for c in codes], 'xck_violations': v,
                                       'root_cause_class': classify(codes, v, out), 'e2fsck_output': out})
            per[name]['k2_pairs'] = len(pj)
        if ck.expired():
            ck.add(exhaustive=False); break
    ck.add(evaluations=total, distinct_nontrivial=accepted, states=total, transitions=total, traces_validated_against_impl=total,
           rule='tool-written family: every operation of C14\'s menu (debugfs / tune2fs / resize2fs / e2fsck / mke2fs on corpus images, inode layout sweeps) whose result e2fsck -fn accepts must be clean for the independent checker; scenario family: coordinated multi-object inconsistencies prepared with debugfs (detached directory cycles of length 1-3, unreferenced file, detached subtree) on three corpus images; geometry family: runtime-built csum filesystems with inode tables of 1..18 blocks per group and inodes in use in every group x every in-use inode x {checksum-only damage, link count +1 resealed, i_blocks +2 resealed}; then the same mutant space as C01 plus, for every block pointer of an inode or mapping block, a "+settle" variant in which the independent reader recomputes block bitmaps, free counts, i_blocks and checksums around the new pointer (so that only the range/ownership invariant is broken); each mutant: e2fsck -fn, and if it exits 0 the independent checker xck.check (groups R,A,L,S,K) must find nothing; '
                'distinct_nontrivial = mutants that e2fsck accepted (only those exercise the oracle)', samples=sample[:6])
    ck.cov['bases'] = per
    ck.assumptions += ['xck (tools/xck, written from the format description, cross-validated against e2fsck on the repo\'s f_* images by tools/xck_calibrate.py) is the trusted oracle',
                       'not asserted (e2fsck documents them as ignorable under -n): superblock total free counts, MMP block content, timestamps, bg_itable_unused slack, '
                       'orphan-list hints, duplicate names across blocks of a linear directory, quota file contents, unreferenced ea_inodes, images with a non-empty bad-block list']
    return ck.finish()

def replay(path):
    global E2FSCK
    d = json.load(open(path)); det = d['detail']
    E2FSCK = tool('e2fsck'); fsweep.init_scratch()
    if det.get('runtime_base'):
        from vlib import geom
        geom.build_geom(False)          # deterministic: same images as in the run that reported the case
    r = pipeline((d['case'], det['base'], [tuple(tuple(y) if isinstance(y, list) else y for y in x) for x in det['parts']]))
    print(json.dumps(r, indent=1)); print('replay verdict:', 'VIOLATION reproduced' if r[1] == 'ACCEPTED_INCONSISTENT' else r[1])
    return 1 if r[1] == 'ACCEPTED_INCONSISTENT' else 0
