#!/usr/bin/env python3
"""mkfindings.py C01 -- maintenance tool (run by hand, never by a check): groups the violations dumped by
`VERIF_DUMP_ALL=1 tools/vcheck C01 --tier thorough` (replays/C01/all.jsonl) into signature classes and writes
known_findings/C01.cases.json with the exact failing case ids per class.  Only to be used after every class has been
triaged as a genuine defect of the tree (see DESIGN.md)."""
import sys, os, json, re, collections
V = os.path.dirname(os.path.dirname(os.path.abspath(__file__)))
prop = sys.argv[1]
append = sys.argv[2] if len(sys.argv) > 2 else None      # mkfindings.py C01 <tag>: keep the existing classes and add the dumped cases as <prop>-<tag>NNN
classes = collections.OrderedDict()
src = sys.argv[3] if len(sys.argv) > 3 else os.path.join(V, 'replays', prop, 'all.jsonl')      # mkfindings.py C01 k2 <dump>: two-field cases only
pairs_only = append is not None and append.startswith('k2')
_known = set()
if pairs_only:
    _old = json.load(open(os.path.join(V, 'known_findings', prop + '.cases.json')))
    _known = set(c for f in _old.values() for c in f['cases'])
for l in open(src):
    d = json.loads(l); det = d['detail']; cid = d['case']
    if (' & ' in cid) != pairs_only:
        continue        # (single-field run: k=2 cases are explained through their components at run time, see Check.match_known)
    if pairs_only:
        base, rest = cid.split('/', 1)
        if any(base + '/' + c in _known for c in rest.split(' & ')): continue        # explained by a listed component
        field = ' & '.join(re.sub(r'\d+', 'N', c.split('=')[0]) for c in rest.split(' & '))
    else:
        field = re.sub(r'\d+', 'N', cid.split('/', 1)[1].split('=')[0])
    if prop == 'C01':
        sig = 'run2:' + ','.join(sorted(set(det['codes_fn']))) + ('/exit%s' % det['rc_fn'])
    else:
        sig = ','.join(sorted(set(x[1] for x in det.get('xck_violations', []))))
    key = '%s|%s' % (field, sig)
    c = classes.setdefault(key, {'what': '', 'example': cid, 'cases': []})
    c['cases'].append(cid)
out = collections.OrderedDict()
for i, (key, c) in enumerate(sorted(classes.items())):
    field, sig = key.split('|')
    fid = '%s-%03d' % (prop, i) if not append else '%s-%s%03d' % (prop, append, i)
    if prop == 'C01':
        c['what'] = 'corrupting %s: `e2fsck -fy` claims success but the following `e2fsck -fn` still reports %s' % (field, sig)
    out[fid] = c
os.makedirs(os.path.join(V, 'known_findings'), exist_ok=True)
if append:
    old = json.load(open(os.path.join(V, 'known_findings', prop + '.cases.json')), object_pairs_hook=collections.OrderedDict)
    have = set(c for f in old.values() for c in f['cases'])
    for fid, c in out.items():
        c['cases'] = [x for x in c['cases'] if x not in have]
        if c['cases']: old[fid] = c
    out = old
json.dump(out, open(os.path.join(V, 'known_findings', prop + '.cases.json'), 'w'), indent=0)
print(prop, 'classes:', len(out), 'cases:', sum(len(c['cases']) for c in out.values()))
