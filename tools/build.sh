#!/bin/bash
# build.sh <variant>  -- build /repo's *current working tree* into /verif/build/<variant>/src
# variants: plain (-O2 -g), asan (-O1 -g -fsanitize=address), tsan (libs only, -fsanitize=thread)
# Incremental: sources are rsynced (tracked + modified + untracked, no build products), then make.
set -e
V=${1:-plain}
VERIF=$(cd "$(dirname "$0")/.." && pwd)
REPO=${VERIF_REPO:-/repo}
B=${VERIF_BUILD_ROOT:-$VERIF/build}/$V
mkdir -p "$B"
exec 9>"$B/.lock"
flock 9
case $V in
  plain) CF="-O2 -g -Wno-error -DE2FSPROGS_VERIF"; LF="";;
  asan)  CF="-O1 -g -fsanitize=address -fno-omit-frame-pointer -Wno-error -DE2FSPROGS_VERIF"; LF="-fsanitize=address";;
  tsan)  CF="-O1 -g -fsanitize=thread -fno-omit-frame-pointer -Wno-error -DE2FSPROGS_VERIF"; LF="-fsanitize=thread";;
  *) echo "unknown variant $V" >&2; exit 2;;
esac
mkdir -p "$B/src"
# copy sources: tracked + untracked-not-ignored, honouring working tree modifications/deletions
( cd "$REPO" && git ls-files -z --cached --others --exclude-standard ) > "$B/.files0"
# drop entries that no longer exist in the working tree (deleted files)
( cd "$REPO" && python3 - "$B/.files0" "$B/.files" <<'PY'
import sys,os
d=open(sys.argv[1],'rb').read().split(b'\0')
out=[f for f in d if f and os.path.lexists(f)]
open(sys.argv[2],'wb').write(b'\0'.join(out)+b'\0')
PY
)
rsync -a --from0 --files-from="$B/.files" --checksum --no-times "$REPO/" "$B/src/" 2>/dev/null || \
rsync -a --from0 --files-from="$B/.files" "$REPO/" "$B/src/"
cd "$B/src"
if [ ! -f "$B/.configured" ] || [ configure -nt "$B/.configured" ]; then
  CFLAGS="$CF" LDFLAGS="$LF" ./configure --disable-nls --disable-fuse2fs --disable-uuidd >"$B/configure.log" 2>&1 || { tail -30 "$B/configure.log" >&2; exit 3; }
  touch "$B/.configured"
fi
if [ "$V" = tsan ]; then
  make -j16 libs >"$B/make.log" 2>&1 || { tail -40 "$B/make.log" >&2; exit 4; }
else
  make -j16 libs progs >"$B/make.log" 2>&1 || { tail -40 "$B/make.log" >&2; exit 4; }
fi
echo "$B/src"
