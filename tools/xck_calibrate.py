#!/usr/bin/env python3
"""Cross-validates xck against e2fsck on the repo's own test images (first: as shipped, then after e2fsck -fy).
Any image that `e2fsck -fn` accepts (exit 0) but xck.check flags is printed: each such case must be triaged by hand
(oracle too strict -> narrow it, documented in DESIGN.md; or a real e2fsck miss -> finding)."""
import os, sys, glob, gzip, bz2, shutil, json
sys.path.insert(0, os.path.dirname(os.path.abspath(__file__)))
from vlib.common import *
from xck.check import check
from xck.image import Image, Malformed
from xck import tree as xtree

def one(path):
    sc = scratch()
    name = os.path.basename(os.path.dirname(path))
    img = os.path.join(sc, name + '.' + str(os.getpid()) + '.img')
    try:
        data = gzip.open(path).read() if path.endswith('.gz') else bz2.open(path).read() if path.endswith('.bz2') else open(path, 'rb').read()
    except Exception as e:
        return name, 'unreadable', None
    out = []
    for stage in ('orig', 'fixed'):
        open(img, 'wb').write(data)
        if stage == 'fixed':
            run([tool('e2fsck'), '-fy', img]); run([tool('e2fsck'), '-fy', img])
            data = open(img, 'rb').read()
        rc, txt = run([tool('e2fsck'), '-fn', img])
        if rc == 0:
            v = check(data)
            t_ok = True
            try:
                xtree.tree(Image(data))
            except Exception as e:
                t_ok = repr(e)
            out.append((stage, rc, v[:6], t_ok))
        else:
            out.append((stage, rc, None, None))
    os.unlink(img)
    return name, 'ok', out

if __name__ == '__main__':
    build('plain')
    paths = sorted(glob.glob(os.path.join(REPO, 'tests/*/image.gz')) + glob.glob(os.path.join(REPO, 'tests/*/image.bz2')))
    res = pmap(one, paths, chunksize=2)
    nclean = nflag = 0
    for name, st, out in res:
        if st != 'ok': continue
        for stage, rc, v, t_ok in out:
            if rc == 0:
                nclean += 1
                if v or t_ok is not True:
                    nflag += 1
                    print('%-40s %-5s xck: %s tree: %s' % (name, stage, v, t_ok))
    print('images accepted by e2fsck -fn: %d, flagged by xck: %d' % (nclean, nflag))
