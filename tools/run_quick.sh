#!/bin/bash
# run_quick.sh [ID...] -- development aid: run the quick tier of every check in /verif against /repo (refreshes evidence/*.json); summary on stdout
cd "$(dirname "$0")/.."
IDS=${@:-C01 C02 C03 C04 C05 C06 C07 C08 C09 C10 C11 C12 C13 C14 C15 C16 C17 C18 C19 C20}
for p in $IDS; do
  s=$(date +%s)
  tools/vcheck $p --tier quick > /tmp/quick_$p.log 2>&1
  rc=$?
  echo "$p rc=$rc wall=$(( $(date +%s) - s ))s $(grep '^\[C' /tmp/quick_$p.log | tail -1 | cut -c1-200)"
done
