#!/usr/bin/env python3
"""Regenerates MANIFEST.json from the table below; a property is claimed iff tools/checks/<id>.py exists."""
import json, os
V = os.path.dirname(os.path.dirname(os.path.abspath(__file__)))
P = {}
def prop(pid, category, technique, text, note, design):
    P[pid] = dict(category=category, technique=technique, text=text, note=note, design=design)

prop('C16', 'model_checking', 'explicit-state BFS to closure over the real bitmap objects\' private state (<= 17 elements), reference-set oracle on every transition; plus exhaustive enumeration of every query/update range on families of contents of wide bitmaps (64..330 elements, engines/bitmapw.c)',
     'Every reachable private state (rbtree shape/colours/cursors, array bytes, end/real_end) of each backend within the scope (<= 17 elements, '
     'cluster ratios 1/2/4, with and without resize/fudge) is expanded by every operation of the alphabet with every in-range argument; each '
     'transition is executed on the real code and compared with a uint64 reference set, so the claim is for histories of any length inside the scope.',
     'small-scope (bitmap sizes <= 17 elements); set/get_range restricted to byte-aligned starts and set lengths multiple of 8 as all in-tree callers do; '
     'trusted: the 60-line reference model, gcc/ASan.', '4/C16')

prop('C17', 'model_checking', 'explicit-state BFS over I/O-channel histories on the real unix_io.c (in-memory device, byte-array model, injected write failures) + preemption-bounded exhaustive schedule exploration of ext2fs_rw_bitmaps + TSan pass',
     'Part A: every history of the 112-operation channel alphabet up to the depth bound (de-duplicated on the cache/control state, so deeper histories that revisit a state are covered too) is run on the real unix_io.c; '
     'each read must return the last written bytes, flush/close must leave the backing file equal to the model, and for every single failed device write some caller must see an error. '
     'Part B: threaded bitmap loading equals single-threaded loading for all thread counts 2..16 on ~200 geometries, for every schedule with <= 2 (thorough 3) preemptions of 2-4 workers, with a read failure at every position; '
     'data races are decided by a separate free-running ThreadSanitizer pass.',
     'depth-bounded (quick 4 / thorough 5 operations beyond de-duplication), 16 KiB device; scheduler hooks pthread_create/join/mutex_lock/unlock and pread64 by link-time wrapping (no source hook); sequential consistency assumed, TSan covers unsynchronised accesses.', '4/C17')

prop('C01', 'fault_enumeration', 'exhaustive deviation-bounded corruption sweep (field catalogue x boundary value alphabet, k<=1, thorough k<=2 over representatives) through e2fsck -fy then e2fsck -fn',
     'Every single-field mutant (with and without re-sealed checksum) of the committed corpus images is repaired with e2fsck -fy; whenever that run claims success the next e2fsck -fn must exit 0 with an empty problem log. '
     'Non-convergent inputs that exist on the pinned tree are genuine e2fsck defects listed by exact mutant id in known_findings/C01.cases.json; any other non-convergent mutant is a violation.',
     'scope: images within one (thorough: two) corrupted catalogue fields of 13 small corpus images (the MMP image is excluded because read-write e2fsck sleeps 11 s on it); not arbitrary images.', '4/C01')
prop('C02', 'fault_enumeration', 'exhaustive corruption sweep (catalogue fields of corpus images, every in-use inode of a geometry family of runtime images, prepared multi-object scenarios); oracle = independent ext4 checker xck on every mutant that e2fsck -fn accepts',
     'For every mutant that e2fsck -fn accepts (exit 0) the independent checker (own struct layouts, CRCs, dirhash; tools/xck) must find no violation of block-reference, allocation, link, structure or checksum invariants. '
     'Five root causes where the pinned e2fsck accepts inconsistent images are recorded as known findings (by root-cause signature or exact mutant id).',
     'trusted: xck, calibrated against e2fsck on the repo\'s 278 clean f_* images (tools/xck_calibrate.py); invariants e2fsck documents as ignorable are not asserted (list in the evidence assumptions).', '4/C02')
prop('C13', 'fault_enumeration', 'exhaustive product of images (corpus + unrecovered journal + single-field mutants, external-journal pair x journal superblock states, undo files) x read-only invocations (every option spelling that changes how the device is opened), byte-identity oracle',
     'Every image of the set x 11-17 read-only invocations of e2fsck/debugfs/dumpe2fs/tune2fs/resize2fs/e2image/e2freefrag/mke2fs -n: the image file must keep its mtime/size after each invocation and be byte-identical at the end.  Part B: undo files recorded by tune2fs/debugfs/e2fsck -z (finished, unfinished, and every header/key field at boundary values under re-sealed checksums) x e2undo -n / -n -f / -n -v / -h / -n -z: image and undo file byte-identical afterwards.',
     'quick restricts mutants to fields that steer open-time behaviour (superblock, descriptors, journal superblock, MMP, reserved inodes); thorough uses the whole catalogue.', '4/C13')
prop('C14', 'model_checking', 'exhaustive byte-flip coverage sweep over checksum-covered ranges + tool-operation x independent checksum recomputation + exhaustive CRC primitive comparison over length x alignment x GF(2) basis',
     '(a) each of ~35 tool operations on checksum-enabled corpus images and 7 mke2fs configurations: every checksum recomputed independently by xck; (b) every byte of the first objects of each kind (sampled for the rest) flipped: e2fsck -fn must exit non-zero and libext2fs\'s verifying read path must report an error; '
     '(c) crc32c/crc32-be/crc16 equal bit-at-a-time polynomial division for every length 0..300 x alignment 0..7 x 3 seeds x {patterns, every single-bit buffer, all 2-byte buffers}.',
     'journal block checksums are covered by C03; MMP follows the documented PR_NO_OK exception; two known findings (group-descriptor damage exits 0, uninit-group metadata bits) shared with C02.', '4/C14')

prop('C05', 'model_checking', 'exhaustive sweeps: every directory size 0..400 x name sequences x repair modes, every file block count 0..300, every single-field summary-only corruption; independent tree-digest oracle',
     '(a) every corpus image x the five repair modes; (b) a test directory holding the first n names of a fixed sequence for every n in 0..400 (short, 252-byte and mixed names; linear, indexed, csum, inline, bigalloc bases) x modes; '
     '(c) a file of every block count 0..300 x {-E bmap2extent, -D}; (d) every single-field mutant confined to bitmap bits, free/used counts, descriptor flags and checksum fields x e2fsck -fy. '
     'Oracle: exit status in {0,1} and the independent reader\'s tree (path, type, bytes, size, mode, owner, nlink, symlink target, xattrs) identical before and after; for (d) additionally a clean second run.',
     'small images (1 KiB blocks, <= 4 MiB); quick thins (b)/(c) to a stride outside the first 120 sizes / 30 block counts; casefold/encrypted directories not in scope.', '4/C05')
prop('C08', 'model_checking', 'exhaustive sweep over every target size (1-block steps) per populated corpus image + option variants; write-trace prefix enumeration for the error-flag invariant',
     'Every target size from 64 blocks to 3x the current size (or +6 groups) in 1-block steps for each populated corpus image, plus -M, -P, -b/-s, -S: success => reported size = s_blocks_count, e2fsck -fn = 0, independent checker clean, '
     'independent tree digest unchanged; refusal => byte-identical image; failure in mid-run => primary superblock flagged; on traced runs every prefix of the recorded device-write sequence is checked for the has-errors flag invariant.',
     'quick: 3 bases and all sizes within 6 blocks of a group boundary or of the current size plus every 13th; thorough: 13 bases, every size. Crash points are prefixes of the write trace (no reordering), as the property states.', '4/C08')
prop('C19', 'model_checking', 'exhaustive sweep over every filesystem size in a 1100-block window (crossing every qcow2 L2/refcount boundary) x corpus feature classes x e2image modes; metadata-block-set oracle from the independent layout reader',
     'For every corpus image and for a populated filesystem of every size in a 1100-block window: e2image -r, -Q, -Q then -r, -ra. Oracle: every metadata block (set computed by the independent reader) byte-identical in the raw image, '
     'e2fsck -fn and dumpe2fs outputs identical on source and image, qcow2->raw equals the direct raw image byte for byte, -ra keeps every file (independent tree digest) and all primary metadata, source bytes unchanged after every run.',
     'quick: every 3rd size plus +-1 around every multiple of 128 and 512 blocks; 1 KiB blocks only for the size sweep.', '4/C19')
prop('C20', 'model_checking', 'exhaustive product group count 1..50 x 11 backup layouts x block sizes, with resize2fs/tune2fs/e2fsck transitions; per state: exact backup set vs format rule and recovery from every backup location',
     'For every geometry of the product and after each tool transition: the set of groups whose first block carries a current superblock copy equals exactly the set the independent reader derives from the format rule (0, 1, powers of 3/5/7; '
     'the sparse_super2 pair; all groups without sparse_super), each copy is current (geometry, features, checksum); and for every such location, with the primary superblock and descriptors zeroed, e2fsck -fy -b <loc> -B <bs> exits <= 1, '
     'a following e2fsck -fn exits 0 and every file is intact; with default group size plain e2fsck finds the backup itself.',
     'quick: 1 KiB blocks, group counts 1..12, 17, 18, 24..28, 33, 34, 49, 50; thorough adds 2 KiB and 4 KiB blocks and all counts 1..50. lost+found differences are ignored.', '4/C20')

prop('C03', 'model_checking', 'exhaustive enumeration of generated journals (transaction shapes x tag/checksum formats x one deviation at every log position x every wrap point x sequence anomalies) replayed by both front-ends against an independent byte-level reference recovery model',
     'Journals are produced by an independent JBD2 writer (tools/xck/jbd2.py) into the log of corpus images (internal block-mapped, internal extent-mapped, external device): all shapes (logged subset x revoked subset x revoke position over 3 targets) for up to 2 (thorough 3) transactions, '
     'all 32 format combinations (32/64-bit tags x no/v1/v2/v3 checksums x async commit x per-tag UUIDs), one deviation (zeroed, stale-sequence, wrong-type block, byte flips in header/tag/record/checksum/payload) at every log position, every wrap point, sequence gaps/repeats/2^32 wrap, '
     'escaped blocks; every log ends in an uncommitted transaction. Each journal is replayed by e2fsck and by debugfs jr; every block of the result must equal the reference model\'s image, the journal must be empty, needs_recovery clear and the two results identical.',
     'model trace validation: every generated journal (= model trace) is executed on both implementations. Checksum-invalid descriptor/revoke blocks make recovery refuse the whole journal (kernel semantics): there only the property\'s upper bound is asserted. Fast commit not covered.', '4/C03')
prop('C04', 'fault_enumeration', 'exhaustive crash-point enumeration: every prefix of the recorded device-write/fsync trace of a recovery x every subset of not-yet-flushed writes lost, invariant on each crash image and differential re-run',
     'For each journal of a family (all two-transaction shapes over two targets, 12-block transactions that overflow the block cache, wrapped logs; two formats) and each front-end (e2fsck journal-only, e2fsck -fy, debugfs jr) the write/fsync trace is recorded from the unmodified binary; '
     'every crash image (prefix x lost subset of the unflushed window; all subsets up to 10 pending writes) is checked: I1 journal-empty or needs_recovery-clear implies all replayed blocks are final on that image; I2 re-running recovery reproduces the uninterrupted result.',
     'block-granular crash model (a pwrite is durable or lost as a whole; durability at the next fsync). When a crash tears the byte-granular primary-superblock update the re-run uses e2fsck -b <backup> as documented. Internal journals for all three front-ends; an external journal device (two traced files, durability per descriptor) for e2fsck.', '4/C04')

prop('C06', 'fault_enumeration', 'exhaustive deviation-bounded corruption sweep (field catalogue k<=1, every metadata byte of a tiny image x 4 treatments, header bytes of external journal / undo file / qcow2; thorough: representative pairs) through AddressSanitizer builds of every tool',
     'Every single-field catalogue mutant of corpus images (quick: ext4csum; thorough: all 13) and every byte of every metadata block of a 128-block filesystem under {0x00, 0xff, ^0x01, ^0x80}, plus the same treatments over an external journal, an undo file and a qcow2 image, '
     'is given to ASan-instrumented e2fsck (-fn, -fy, thorough -fp/-fyD), dumpe2fs, a 45-command read-only debugfs script, and (thorough) tune2fs -l, resize2fs -P, e2image -r/-Q, e2freefrag, e2undo: no sanitizer report, no fatal signal, exit within 20 s (re-run alone with 150 s before a hang is reported), e2fsck exit status within its documented bit set.',
     'scope is corrupted well-formed images within one field / one byte (thorough two fields), not arbitrary byte strings; commands whose run time is proportional to i_size (cat/dump/rdump) are not in the script. Four genuine defects found this way were repaired (fix: commits, see known_findings.json).', '4/C06')

prop('C07', 'model_checking', 'exhaustive enumeration of a configuration product: feature set x every device size (1-block steps across 4 groups and around descriptor-block boundaries, 1k/2k/4k blocks) x one-at-a-time option deviations; e2fsck + independent checker + geometry/backup oracle',
     'Every configuration of the product (18 feature sets x every size from 40k to 4 groups+20, +-12 blocks around 16/17/32/33/64/65 groups, 2k/4k block geometries, ~50 option deviations x sizes) is given to mke2fs; for every accepted one: e2fsck -fn exits 0, the independent checker is clean, '
     'requested block/cluster/inode size, group size, inode count and features are present, s_blocks_count fits the request, the backup superblock set is exactly the format\'s and current; pre-filled targets stay identical under mke2fs -n; a second run from the same initial device is byte-identical.',
     'quick: 8 feature sets for the size sweep and 6 for the option deviations; rejected configurations are counted only. Known finding: the MMP block carries wall-clock time. One genuine defect found (quota files written before -d population) was repaired.', '4/C07')

prop('C11', 'model_checking', 'explicit-state BFS over sequences of tune2fs invocations (image states de-duplicated by masked hash), per-transition oracle: requested setting, superblock frame condition, independent tree digest, e2fsck + independent checker',
     'Breadth-first search from 8 corpus images over a menu of 42 tune2fs invocations (feature conversions incl. metadata_csum, uninit_bg, journal, extents, quota/project quota, csum seed, UUID set/clear, inode size growth, flex_bg/huge_file/dir_nlink/dir_index/large_dir/ea_inode flags, labels, reserved blocks, '
     'error behaviour, intervals, mount options, RAID hints) to depth 2 (thorough 3): after every successful invocation the requested setting is in the superblock, no superblock field outside the operation\'s allow-list changed, every file is unchanged, and the filesystem is consistent '
     '(after the e2fsck run tune2fs asked for, which must exit <= 1).',
     'state space is closed under de-duplication only up to the depth bound; quick expands the second level with the 27 conversion operations only. Two root causes are known findings (tune2fs ignores the orphan file; e2fsck mis-accounts inline-data symlinks in quota); one defect (^dir_index without e2fsck request) was repaired.', '4/C11')

prop('C12', 'model_checking', 'exhaustive enumeration of chains of undo-recording tool runs (depth <= 2, thorough 3) over a menu of 18 runs x devices (block sizes, odd lengths, offset), byte-identity oracle after e2undo; exhaustive single-bit damage of undo files',
     'Every chain up to the depth bound of tune2fs/resize2fs/e2fsck/debugfs -w/mke2fs runs recording to one undo file (-z), on devices with 1k/2k/4k filesystems, lengths that are not a multiple of the undo block size (stamped tails) and a filesystem at offset 4096, plus every single run '
     'with a simulated unfinished recording: e2undo -n writes nothing; e2undo exits 0 and the device is byte-identical over its original length to its state before the first recorded run (after an abnormal end: except the needs-check marking of the primary superblock). '
     'Every single-bit flip (quick: one per byte) of a tune2fs undo file and of the header/key area of a mke2fs undo file: e2undo either refuses without writing or restores exactly.',
     'tool-level (the undo manager is driven through the tools); image files truncated by resize2fs are re-extended to emulate a block device. Known finding: chains that mix filesystem block sizes on one undo file. One defect (write_byte offset applied twice) was repaired.', '4/C12')

prop('C18', 'model_checking', 'exhaustive enumeration of all source trees of a small grammar (<= 2 entries, thorough 3, over 21 entry kinds, plus kind x metadata variant) x feature sets x two builders; independent image reader vs lstat walk of the source; extraction compared with the source',
     'Every tree with up to 2 (thorough 3) entries drawn from 21 kinds (file sizes around block boundaries, holes at start/middle/end, allocated zero blocks, data beyond 4 GiB, symlinks of 2/59/60/300 bytes, hard link, char/block device with 20-bit minor, fifo, socket, nested directory) and every kind x one metadata variant '
     '(setuid/sticky/0000 modes, owners 1000 and 70000, mtime 0/1/2^31-1, user xattr) is built by mke2fs -d and by a debugfs script on 2 (thorough 6) feature sets; an independent reading of the image must equal the lstat walk of the source in names, types, rdev, sizes, content block by block, holes, '
     'targets, link groups and counts, 12 mode bits, owners, mtime seconds and user xattrs; e2fsck -fn = 0, independent checker clean, rebuild byte-identical; debugfs rdump / dump -p output compared with the source.',
     'source trees live on the scratch tmpfs, built as root. Defects found this way were repaired (inline-data reads returned the inline area size; rdump did not restore symlink owners; sparse files on inline_data filesystems).', '4/C18')

prop('C09', 'model_checking', 'explicit-state BFS over histories of file operations on the real libext2fs (in-process harness, states de-duplicated on the image hash), byte-array reference model checked after every operation, independent checker on distinct states',
     'Breadth-first search to depth 2-3 over ~330 operations on two files (pwrite at offsets around block, indirect-level and cluster boundaries x 5 lengths, two writes and a read through one handle, set_size, punch over block ranges, fallocate with each flag combination, filesystem close+reopen) on block-mapped, extent, '
     'extent+metadata_csum, bigalloc, inline_data and 4k-block filesystems, empty and nearly full: after every operation both files are read back completely through fresh handles (two chunk sizes) and must equal the byte-array model (last write wins, holes/punched/preallocated ranges read zero, exact size); '
     'every distinct final image must pass e2fsck -fn and the independent checker (i_blocks, bitmaps).',
     'depth-bounded (quick: depth 2, depth 3 from states that end in a shrinking operation; thorough: depth 3); after an operation that fails with an error other than no-space the affected file is no longer compared. Six defects found this way were repaired (fallocate gap filling, indirect punch, and four in the inline-data write/set_size/convert/punch paths).', '4/C09')

prop('C15', 'model_checking', 'explicit-state BFS over histories of xattr set/replace/remove operations on the real libext2fs (in-process harness, states de-duplicated on the image hash), map reference model checked after every operation, independent checker on distinct states',
     'Breadth-first search to depth 2 (thorough 3) over set/remove operations for 7 names (user, a 250-byte name, trusted, security, POSIX ACL) x value lengths placed around the in-inode and in-block capacities of each configuration and beyond one block (ea_inode), two sets through one handle and filesystem reopen, '
     'on a regular file, a directory and an inline-data file; inode sizes 128/256/1024, ea_inode, metadata_csum, inline_data, 1k and 4k blocks. After every operation ext2fs_xattrs_iterate and ext2fs_xattr_get of all three inodes must equal the model map; every distinct final image must pass e2fsck -fn and the independent checker '
     '(entry order, hashes, reference counts, ea_inode references, block and inode accounting, i.e. no leak and no double free).',
     'depth-bounded; quick uses 5 configurations and a reduced second level. Known finding: value-inode blocks are not charged to the owner\'s i_blocks. One defect (values above 64 KiB accepted but unreadable) was repaired.', '4/C15')

prop('C10', 'model_checking', 'exhaustive directory-size sweep (one insert/remove at a time through debugfs, re-indexing interleaved) plus BFS over namespace operations from every state just before a structural event; name-set reference model and independent reader/checker after every step',
     'For linear, indexed (odd and even index limits), inline-data, no-filetype, 4k and large_dir configurations and three name sequences (4-byte, 250-byte, mixed) names are inserted one at a time up to 300-700 entries with e2fsck -fyD at 40 and 200 names, then removed in 2-4 orders: after the steps the independent listing equals the model, '
     'every name resolves to the right type and link count, the independent checker (incl. htree hash ranges with its own hash functions) is clean and e2fsck -fn exits 0. From every state just before a new block / index creation / index level a BFS of depth 1-2 over mkdir, create, symlink, mknod, hard link, rm and rmdir on six names (existing, new, 255-byte) is run with the same oracle.',
     'quick checks every insert up to 130 names and every third afterwards, BFS depth 1 from up to 6 threshold states per configuration; hash-colliding names are not constructed. One defect (debugfs mknod duplicated an existing name) was repaired.', '4/C10')

def main():
    props = [json.loads(l) for l in open(os.path.join(V, 'properties.jsonl'))]
    checks, na = [], []
    for p in props:
        pid = p['id']
        if pid in P and os.path.exists(os.path.join(V, 'tools/checks/%s.py' % pid.lower())):
            d = P[pid]
            checks.append({'property_id': pid, 'quick_cmd': 'tools/vcheck %s --tier quick' % pid, 'thorough_cmd': 'tools/vcheck %s --tier thorough' % pid,
                           'evidence_file': 'evidence/%s.json' % pid, 'replay_cmd_template': 'tools/vcheck %s --replay {path}' % pid,
                           'engine': 'vcheck', 'level_claimed': {'category': d['category'], 'text': d['text'], 'design_ref': 'DESIGN.md section ' + d['design']},
                           'level_note': d['note'], 'technique': d['technique']})
        else:
            na.append({'property_id': pid, 'reason': 'check not implemented yet in this revision of /verif (design in DESIGN.md section 4/%s); nothing is claimed' % pid})
    m = {'version': 1,
         'setup_cmd': 'tools/setup.sh',
         'hooks': {'guard': 'E2FSPROGS_VERIF', 'enable': 'tools/build.sh passes -DE2FSPROGS_VERIF in CFLAGS when it builds /repo\'s working tree into /verif/build/<variant>; no source hook exists so far',
                   'baseline_off_cmd': 'make -C /repo -k check', 'source_commits': [], 'add_only': True},
         'engines': [{'name': 'vcheck', 'path': 'tools/vcheck', 'serves_properties': [c['property_id'] for c in checks],
                      'kind_free_text': 'dispatcher: rebuilds /repo working tree (tools/build.sh), runs the per-property explorer in tools/checks/, writes evidence'},
                     {'name': 'bitmapx', 'path': 'engines/bitmapx.c', 'serves_properties': ['C16'], 'kind_free_text': 'explicit-state closure explorer over real bitmap backends'},
                     {'name': 'bitmapw', 'path': 'engines/bitmapw.c', 'serves_properties': ['C16'], 'kind_free_text': 'exhaustive range-query/update enumerator over families of contents of wide bitmaps'},
                     {'name': 'fileopx', 'path': 'engines/fileopx.c', 'serves_properties': ['C09'], 'kind_free_text': 'in-process replay of file-operation histories on libext2fs with a byte-array reference model'},
                     {'name': 'xattrx', 'path': 'engines/xattrx.c', 'serves_properties': ['C15'], 'kind_free_text': 'in-process replay of xattr operation histories with a map reference model'},
                     {'name': 'iochanx', 'path': 'engines/iochanx.c', 'serves_properties': ['C17'], 'kind_free_text': 'BFS over channel histories on unix_io.c with an in-memory device (engines/vdev.h)'},
                     {'name': 'rwbmx', 'path': 'engines/rwbmx.c', 'serves_properties': ['C17'], 'kind_free_text': 'preemption-bounded scheduler (futex baton, --wrap hooks) + ICB DFS, differential and TSan modes'}],
         'checks': checks, 'not_applicable': na,
         'notes': 'All checks rebuild from /repo\'s current working tree into /verif/build (git-ignored). Scratch files live in /dev/shm/verif.* and are removed on exit.'}
    json.dump(m, open(os.path.join(V, 'MANIFEST.json'), 'w'), indent=1)
    print('claimed:', [c['property_id'] for c in checks])
main()
