#!/usr/bin/env python3
"""Regenerates MANIFEST.json from the table below; a property is claimed iff tools/checks/<id>.py exists."""
import json, os
V = os.path.dirname(os.path.dirname(os.path.abspath(__file__)))
P = {}
def prop(pid, category, technique, text, note, design):
    P[pid] = dict(category=category, technique=technique, text=text, note=note, design=design)

prop('C16', 'model_checking', 'explicit-state BFS to closure over the real bitmap objects\' private state, reference-set oracle on every transition',
     'Every reachable private state (rbtree shape/colours/cursors, array bytes, end/real_end) of each backend within the scope (<= 17 elements, '
     'cluster ratios 1/2/4, with and without resize/fudge) is expanded by every operation of the alphabet with every in-range argument; each '
     'transition is executed on the real code and compared with a uint64 reference set, so the claim is for histories of any length inside the scope.',
     'small-scope (bitmap sizes <= 17 elements); set/get_range restricted to byte-aligned starts and set lengths multiple of 8 as all in-tree callers do; '
     'trusted: the 60-line reference model, gcc/ASan.', '4/C16')

prop('C17', 'model_checking', 'explicit-state BFS over I/O-channel histories on the real unix_io.c (in-memory device, byte-array model, injected write failures) + preemption-bounded exhaustive schedule exploration of ext2fs_rw_bitmaps + TSan pass',
     'Part A: every history of the 112-operation channel alphabet up to the depth bound (de-duplicated on the cache/control state, so deeper histories that revisit a state are covered too) is run on the real unix_io.c; '
     'each read must return the last written bytes, flush/close must leave the backing file equal to the model, and for every single failed device write some caller must see an error. '
     'Part B: threaded bitmap loading equals single-threaded loading for all thread counts 2..16 on ~200 geometries, for every schedule with <= 2 (thorough 3) preemptions of 2-4 workers, with a read failure at every position; '
     'data races are decided by a separate free-running ThreadSanitizer pass.',
     'depth-bounded (quick 4 / thorough 5 operations beyond de-duplication), 16 KiB device; scheduler hooks pthread_create/join/mutex_lock/unlock and pread64 by link-time wrapping (no source hook); sequential consistency assumed, TSan covers unsynchronised accesses.', '4/C17')

prop('C01', 'fault_enumeration', 'exhaustive deviation-bounded corruption sweep (field catalogue x boundary value alphabet, k<=1, thorough k<=2 over representatives) through e2fsck -fy then e2fsck -fn',
     'Every single-field mutant (with and without re-sealed checksum) of the committed corpus images is repaired with e2fsck -fy; whenever that run claims success the next e2fsck -fn must exit 0 with an empty problem log. '
     'Non-convergent inputs that exist on the pinned tree are genuine e2fsck defects listed by exact mutant id in known_findings/C01.cases.json; any other non-convergent mutant is a violation.',
     'scope: images within one (thorough: two) corrupted catalogue fields of 13 small corpus images (the MMP image is excluded because read-write e2fsck sleeps 11 s on it); not arbitrary images.', '4/C01')
prop('C02', 'fault_enumeration', 'same exhaustive corruption sweep; oracle = independent ext4 checker xck on every mutant that e2fsck -fn accepts',
     'For every mutant that e2fsck -fn accepts (exit 0) the independent checker (own struct layouts, CRCs, dirhash; tools/xck) must find no violation of block-reference, allocation, link, structure or checksum invariants. '
     'Five root causes where the pinned e2fsck accepts inconsistent images are recorded as known findings (by root-cause signature or exact mutant id).',
     'trusted: xck, calibrated against e2fsck on the repo\'s 278 clean f_* images (tools/xck_calibrate.py); invariants e2fsck documents as ignorable are not asserted (list in the evidence assumptions).', '4/C02')
prop('C13', 'fault_enumeration', 'exhaustive product of images (corpus + unrecovered journal + single-field mutants) x read-only invocations, byte-identity oracle',
     'Every image of the set x 11-17 read-only invocations of e2fsck/debugfs/dumpe2fs/tune2fs/resize2fs/e2image/e2freefrag/mke2fs -n: the image file must keep its mtime/size after each invocation and be byte-identical at the end.',
     'quick restricts mutants to fields that steer open-time behaviour (superblock, descriptors, journal superblock, MMP, reserved inodes); thorough uses the whole catalogue.', '4/C13')
prop('C14', 'model_checking', 'exhaustive byte-flip coverage sweep over checksum-covered ranges + tool-operation x independent checksum recomputation + exhaustive CRC primitive comparison over length x alignment x GF(2) basis',
     '(a) each of ~35 tool operations on checksum-enabled corpus images and 7 mke2fs configurations: every checksum recomputed independently by xck; (b) every byte of the first objects of each kind (sampled for the rest) flipped: e2fsck -fn must exit non-zero and libext2fs\'s verifying read path must report an error; '
     '(c) crc32c/crc32-be/crc16 equal bit-at-a-time polynomial division for every length 0..300 x alignment 0..7 x 3 seeds x {patterns, every single-bit buffer, all 2-byte buffers}.',
     'journal block checksums are covered by C03; MMP follows the documented PR_NO_OK exception; two known findings (group-descriptor damage exits 0, uninit-group metadata bits) shared with C02.', '4/C14')

def main():
    props = [json.loads(l) for l in open(os.path.join(V, 'properties.jsonl'))]
    checks, na = [], []
    for p in props:
        pid = p['id']
        if pid in P and os.path.exists(os.path.join(V, 'tools/checks/%s.py' % pid.lower())):
            d = P[pid]
            checks.append({'property_id': pid, 'quick_cmd': 'tools/vcheck %s --tier quick' % pid, 'thorough_cmd': 'tools/vcheck %s --tier thorough' % pid,
                           'evidence_file': 'evidence/%s.json' % pid, 'replay_cmd_template': 'tools/vcheck %s --replay {path}' % pid,
                           'engine': 'vcheck', 'level_claimed': {'category': d['category'], 'text': d['text'], 'design_ref': 'DESIGN.md section ' + d['design']},
                           'level_note': d['note'], 'technique': d['technique']})
        else:
            na.append({'property_id': pid, 'reason': 'check not implemented yet in this revision of /verif (design in DESIGN.md section 4/%s); nothing is claimed' % pid})
    m = {'version': 1,
         'setup_cmd': 'tools/setup.sh',
         'hooks': {'guard': 'E2FSPROGS_VERIF', 'enable': 'tools/build.sh passes -DE2FSPROGS_VERIF in CFLAGS when it builds /repo\'s working tree into /verif/build/<variant>; no source hook exists so far',
                   'baseline_off_cmd': 'make -C /repo -k check', 'source_commits': [], 'add_only': True},
         'engines': [{'name': 'vcheck', 'path': 'tools/vcheck', 'serves_properties': [c['property_id'] for c in checks],
                      'kind_free_text': 'dispatcher: rebuilds /repo working tree (tools/build.sh), runs the per-property explorer in tools/checks/, writes evidence'},
                     {'name': 'bitmapx', 'path': 'engines/bitmapx.c', 'serves_properties': ['C16'], 'kind_free_text': 'explicit-state closure explorer over real bitmap backends'},
                     {'name': 'iochanx', 'path': 'engines/iochanx.c', 'serves_properties': ['C17'], 'kind_free_text': 'BFS over channel histories on unix_io.c with an in-memory device (engines/vdev.h)'},
                     {'name': 'rwbmx', 'path': 'engines/rwbmx.c', 'serves_properties': ['C17'], 'kind_free_text': 'preemption-bounded scheduler (futex baton, --wrap hooks) + ICB DFS, differential and TSan modes'}],
         'checks': checks, 'not_applicable': na,
         'notes': 'All checks rebuild from /repo\'s current working tree into /verif/build (git-ignored). Scratch files live in /dev/shm/verif.* and are removed on exit.'}
    json.dump(m, open(os.path.join(V, 'MANIFEST.json'), 'w'), indent=1)
    print('claimed:', [c['property_id'] for c in checks])
main()
