#!/usr/bin/env python3
"""mkmutant.py <dump.jsonl|replay.json> <case id> <out.img>  -- materialise one mutant for manual triage"""
import sys, os, json
sys.path.insert(0, os.path.dirname(os.path.abspath(__file__)))
from vlib import fsweep
src, cid, out = sys.argv[1:4]
for l in open(src):
    d = json.loads(l)
    if d['case'] == cid:
        open(out, 'wb').write(fsweep.make_multi(d['detail']['base'], [tuple(x) for x in d['detail']['parts']]))
        print(d['detail'].get('xck_violations') or d['detail'].get('codes_fn'))
        break
else:
    print('not found')
