#!/bin/bash
# One-time setup after a fresh restore: build the tree variants the checks use (they rebuild incrementally later).
set -e
cd "$(dirname "$0")/.."
tools/build.sh plain >/dev/null
tools/build.sh asan >/dev/null
echo setup ok
