#!/usr/bin/env python3
"""mutcamp.py <ID> <file>:<func>[,<func>...] [<file>:<func> ...] [--tier quick] [--max N] [--ops rel,logic,off1,del] [--root /tmp/mutc]

Development aid (not registered in MANIFEST.json): a small source-level mutation campaign that measures what a check detects.
For every mutant of the named functions (relational operator flips, && <-> ||, dropped +/-1, deleted call statements) the patch is
applied to a scratch git worktree of /repo (never to /repo itself), the check is run against that worktree with its own build
root, and the outcome is recorded:  killed (exit 1 with a VIOLATION line) / survived (exit 0) / nobuild / error.
Survivors are candidates for (a) equivalent or out-of-property mutants or (b) gaps in the check; they are triaged by hand.
Results: <root>/<ID>/results.jsonl (appended; mutants already present are skipped)."""
import sys, os, re, json, subprocess, time, argparse, hashlib

ap = argparse.ArgumentParser()
ap.add_argument('id'); ap.add_argument('targets', nargs='+')
ap.add_argument('--tier', default='quick'); ap.add_argument('--max', type=int, default=0)
ap.add_argument('--ops', default='rel,logic,off1,del'); ap.add_argument('--root', default='/tmp/mutc')
ap.add_argument('--timeout', type=int, default=1500); ap.add_argument('--list', action='store_true')
ap.add_argument('--extra', default='', help='extra vcheck arguments')
ap.add_argument('--every', type=int, default=1, help='take every n-th mutant (deterministic subsample)'); ap.add_argument('--phase', type=int, default=0)
a = ap.parse_args()
VERIF = os.path.dirname(os.path.dirname(os.path.dirname(os.path.abspath(__file__))))
R = os.path.join(a.root, a.id); W = os.path.join(R, 'repo')
os.makedirs(R, exist_ok=True)
if not os.path.isdir(W):
    subprocess.check_call(['git', '-C', '/repo', 'worktree', 'add', '--detach', W, 'HEAD'], stdout=subprocess.DEVNULL, stderr=subprocess.DEVNULL)
subprocess.check_call(['git', '-C', W, 'checkout', '-q', '--detach', subprocess.check_output(['git', '-C', '/repo', 'rev-parse', 'HEAD'], text=True).strip()])
subprocess.check_call(['git', '-C', W, 'checkout', '--', '.'])

def func_range(lines, name):
    pat = re.compile(r'^(?:[A-Za-z_][^;]*\b)?%s\s*\(' % re.escape(name))
    for i, l in enumerate(lines):
        if pat.match(l):
            j = i
            while j < len(lines) and not lines[j].startswith('{') and ';' not in lines[j]: j += 1
            if j >= len(lines) or not lines[j].startswith('{'): continue        # a prototype
            k = j
            while k < len(lines) and not lines[k].startswith('}'): k += 1
            if k < len(lines): return j + 1, k
    raise SystemExit('function %s not found' % name)

def strip_strings(l):
    return re.sub(r'"(\\.|[^"\\])*"', lambda m: '"' + ' ' * (len(m.group(0)) - 2) + '"', l)

REL = [(r'(?<![<>=!\-+*/&|^%])<=(?!=)', '<'), (r'(?<![<>=!\-])<(?![<=])', '<='), (r'(?<![<>=!\-])>=(?!=)', '>'), (r'(?<![<>=!\-])>(?![>=])', '>='),
       (r'(?<![<>=!])==(?!=)', '!='), (r'!=(?!=)', '==')]
LOGIC = [(r'&&', '||'), (r'\|\|', '&&')]
OFF1 = [(r'\s*\+\s*1\b(?!\s*[*/])', ''), (r'\s*-\s*1\b(?!\s*[*/])', ''), (r'\+\+', '--')]
def mutants_of(path, funcs, ops):
    lines = open(os.path.join(W, path)).read().split('\n')
    out = []
    for fn in funcs:
        s, e = func_range(lines, fn)
        incomment = False
        for i in range(s, e):
            l = lines[i]; st = l.strip()
            if st.startswith('/*'): incomment = '*/' not in st
            if incomment:
                if '*/' in st: incomment = False
                continue
            if st.startswith('*') or st.startswith('//') or st.startswith('#') or not st: continue
            code = strip_strings(l)
            c = code.find('/*')
            if c >= 0: code = code[:c] + ' ' * (len(code) - c)
            table = []
            if 'rel' in ops: table += [('rel',) + t for t in REL]
            if 'logic' in ops: table += [('logic',) + t for t in LOGIC]
            if 'off1' in ops: table += [('off1',) + t for t in OFF1]
            if 'ret' in ops: table += [('ret', r'\breturn 0;', 'return 1;'), ('ret', r'\breturn 1;', 'return 0;'), ('ret', r'\bcontinue;', 'break;'), ('neg', r'(?<=\()!(?=[A-Za-z_(])', ''), ('neg', r'(?<=&& )!(?=[A-Za-z_(])', ''), ('neg', r'(?<=\|\| )!(?=[A-Za-z_(])', '')]
            for kind, pat, rep in table:
                for m in re.finditer(pat, code):
                    if kind == 'rel' and '->' in code[max(0, m.start() - 1):m.end() + 1]: continue
                    if kind == 'off1' and rep == '--' and re.match(r'\s*for\b', code): continue      # a reversed loop counter just hangs
                    nl = l[:m.start()] + rep + l[m.end():]
                    out.append((path, fn, i + 1, kind, l.strip(), nl.strip(), i, nl))
            if 'del' in ops and re.match(r'^\s*[A-Za-z_][\w>.\-\[\]]*\s*\([^;]*\)\s*;\s*$', code) and not re.match(r'^\s*(return|if|while|for|switch|sizeof)\b', code):
                out.append((path, fn, i + 1, 'del', l.strip(), ';', i, re.match(r'^\s*', l).group(0) + ';'))
            if 'del' in ops and re.match(r'^\s*[\w>.\-\[\]\*\(\)]+\s*(\|=|&=|\+=|-=)\s*[^;]*;\s*$', code):
                out.append((path, fn, i + 1, 'delassign', l.strip(), ';', i, re.match(r'^\s*', l).group(0) + ';'))
    return out

muts = []
for t in a.targets:
    path, fns = t.split(':')
    muts += mutants_of(path, fns.split(','), a.ops.split(','))
if a.every > 1: muts = muts[a.phase::a.every]
if a.max: muts = muts[:a.max]
if a.list:
    for m in muts: print('%s:%d [%s] %s  ==>  %s' % (m[0], m[2], m[3], m[4], m[5]))
    print(len(muts), 'mutants'); sys.exit(0)

resf = os.path.join(R, 'results.jsonl')
done = set()
if os.path.exists(resf):
    for l in open(resf):
        d = json.loads(l); done.add(d['key'])
env = dict(os.environ, VERIF_REPO=W, VERIF_BUILD_ROOT=os.path.join(R, 'build'), VERIF_OUT=os.path.join(R, 'out'))
def runcheck():
    t = time.time()
    try:
        r = subprocess.run([os.path.join(VERIF, 'tools/vcheck'), a.id, '--tier', a.tier] + a.extra.split(), env=env, stdout=subprocess.PIPE, stderr=subprocess.STDOUT, text=True, timeout=a.timeout)
        rc, out = r.returncode, r.stdout
    except subprocess.TimeoutExpired as e:
        rc, out = 'TIMEOUT', (e.stdout or b'').decode('latin1') if isinstance(e.stdout, bytes) else (e.stdout or '')
    return rc, out, time.time() - t
# baseline
if 'BASE' not in done:
    rc, out, w = runcheck()
    nv = len(re.findall(r'^VIOLATION', out, re.M))
    print('baseline rc=%s violations=%d wall=%.0fs' % (rc, nv, w), flush=True)
    if rc != 0:
        print(out[-3000:]); raise SystemExit('baseline does not pass')
    open(resf, 'a').write(json.dumps({'key': 'BASE', 'rc': rc, 'wall': w}) + '\n')
for m in muts:
    path, fn, ln, kind, old, new, idx, nl = m
    key = '%s:%d:%s:%s' % (path, ln, kind, hashlib.sha1((old + '=>' + new).encode()).hexdigest()[:8])
    if key in done: continue
    p = os.path.join(W, path)
    orig = open(p).read()
    lines = orig.split('\n'); lines[idx] = nl
    open(p, 'w').write('\n'.join(lines))
    try:
        rc, out, w = runcheck()
    finally:
        open(p, 'w').write(orig)
    nv = len(re.findall(r'^VIOLATION', out, re.M))
    if 'BUILD FAILED' in out or 'does not compile' in out: verdict = 'nobuild'
    elif rc == 1 and nv: verdict = 'killed'
    elif rc == 0: verdict = 'survived'
    else: verdict = 'error'
    first = ''
    mm = re.search(r'^VIOLATION.*\n?(.*)', out, re.M)
    rec = {'key': key, 'file': path, 'func': fn, 'line': ln, 'kind': kind, 'old': old, 'new': new, 'verdict': verdict, 'rc': rc, 'violations': nv, 'wall': round(w, 1),
           'tail': out[-600:] if verdict in ('error',) else ''}
    open(resf, 'a').write(json.dumps(rec) + '\n')
    print('%-8s %s:%d [%s] %s => %s  (viol=%d, %.0fs)' % (verdict, path, ln, kind, old[:70], new[:70], nv, w), flush=True)
subprocess.call(['git', '-C', W, 'checkout', '--', '.'])
