#!/usr/bin/env python3
"""keep.py <tag> <prop> <needs> <caught_by> <note>  -- copy a confirmed sub-agent change from /tmp/seedout/<tag> to /verif/seeded/<tag> with meta.json"""
import sys, os, json, shutil, glob
tag, prop, needs, caught, note = sys.argv[1:6]
src = '/tmp/seedout/' + tag; dst = os.path.join(os.path.dirname(os.path.abspath(__file__)), '..', '..', 'seeded', tag)
os.makedirs(dst, exist_ok=True)
for f in glob.glob(src + '/*'):
    b = os.path.basename(f)
    if os.path.isdir(f) or b.endswith('.log') or b.startswith('confirm') or os.path.getsize(f) > 200000: continue
    shutil.copy(f, dst)
json.dump({'property': prop, 'breaks': prop, 'needs_to_manifest': needs, 'caught_by': caught, 'note': note,
           'what_i_ran': 'agent (property text + scratch worktree /tmp/seed/%s only, told which functions earlier seeds touched) produced patch, demo and notes; tools/seed/confirm.sh: patch applies to clean HEAD, worktree diff equals the patch, '
                         'demo exits 1 on the changed tree and 0 on a clean build, make -k check on the changed tree = 391 ok + m_assume_storage_prezeroed (fails on the unmodified tree too); tools/trymutant.sh seeded/%s/patch.diff %s quick' % (tag, tag, prop)},
          open(os.path.join(dst, 'meta.json'), 'w'), indent=1)
print(sorted(os.listdir(dst)))
