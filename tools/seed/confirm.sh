#!/bin/bash
# confirm.sh <tag> : re-run the agent's claims myself
t=$1; o=/tmp/seedout/$t; w=/tmp/seed/$t
cd $o || exit 2
echo "== patch applies to clean HEAD?"; git -C /tmp/mut/repo checkout -q -- . ; git -C /tmp/mut/repo apply --check $o/patch.diff && echo yes
echo "== worktree diff equals patch?"; git -C $w diff | diff -q - $o/patch.diff >/dev/null && echo same || echo DIFFERENT
echo "== demo on changed tree"; bash $o/demo.sh $w > $o/confirm.changed.txt 2>&1; echo "exit=$?"; tail -3 $o/confirm.changed.txt | cut -c1-200
echo "== demo on clean build"; bash $o/demo.sh /verif/build/plain/src > $o/confirm.clean.txt 2>&1; echo "exit=$?"; tail -2 $o/confirm.clean.txt | cut -c1-200
echo "== make check on changed tree"; (cd $w && make -j6 >/dev/null 2>&1; make -j6 -k check > $o/confirm.check.log 2>&1); grep "tests succeeded\|^Tests failed" $o/confirm.check.log
