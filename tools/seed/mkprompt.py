#!/usr/bin/env python3
"""mkprompt.py <ID> <suffix>  -> /tmp/seedout/<ID><suffix>.prompt.txt ; creates the worktree too"""
import sys, json, os, re, glob, subprocess
pid, suf = sys.argv[1], sys.argv[2]
tag = pid + suf
tmpl = open('/tmp/seedout/C11b.prompt.txt').read()
props = {json.loads(l)['id']: json.loads(l) for l in open('/verif/properties.jsonl')}
p = props[pid]
# earlier seeds' touched places
touched = []
for d in sorted(glob.glob('/verif/seeded/%s*' % pid)):
    f = None
    for l in open(d + '/patch.diff', errors='replace'):
        if l.startswith('+++ b/'): f = l[6:].strip()
        m = re.match(r'@@ .* @@ (.*)', l)
        if m and f: touched.append('%s (%s)' % (f, m.group(1).strip()[:70]))
touched = sorted(set(touched))
head, rest = tmpl.split('THE PROPERTY (a semantic property that e2fsprogs is supposed to satisfy):')
rest2 = rest.split('YOUR TASK:')[1]
body = '\n\n%s — %s\n\nStatement: %s\n\nQuantifier: %s\n\nWhy the existing tests cannot settle it: %s\n\nAnchors: %s\n\n\n' % (pid, p['title'], p['statement'], p['quantifier']['text'], p['why_tests_cant'], json.dumps(p['anchors']))
note = 'NOTE: other engineers already produced changes for this property in: %s. Choose a DIFFERENT mechanism in a different function (ideally a different file or tool, and a different aspect of the property) so that your change is independent of theirs.\n\n' % '; '.join(touched)
out = head.replace('C11b', tag) + 'THE PROPERTY (a semantic property that e2fsprogs is supposed to satisfy):' + body + note + 'YOUR TASK:' + rest2.replace('C11b', tag)
open('/tmp/seedout/%s.prompt.txt' % tag, 'w').write(out)
os.makedirs('/tmp/seedout/' + tag, exist_ok=True)
if not os.path.isdir('/tmp/seed/' + tag):
    subprocess.check_call(['git', '-C', '/repo', 'worktree', 'add', '--detach', '/tmp/seed/' + tag, 'HEAD'], stdout=subprocess.DEVNULL, stderr=subprocess.DEVNULL)
print(tag, len(out), 'touched:', touched)
