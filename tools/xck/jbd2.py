"""Independent JBD2 journal writer and reference recovery model.

Written from the on-disk format description (journal superblock, descriptor / revoke / commit blocks, tag formats,
checksum v1/v2/v3).  Shares no code with e2fsprogs.  All on-disk integers are big-endian.

Writer:  Journal(fmt, ...) + add_txn(...) produce {logical journal block -> bytes}.
Model:   recover_model(read_block, bs) parses journal *bytes* (so it can be pointed at any damaged log) and returns
         what a correct three-pass recovery has to do: the list of block writes, or a class that only bounds them."""
import struct
from .crc import crc32c, crc32be

MAGIC = 0xC03B3998
BT_DESC, BT_COMMIT, BT_SBV1, BT_SBV2, BT_REVOKE = 1, 2, 3, 4, 5
F_ESCAPE, F_SAME_UUID, F_DELETED, F_LAST = 1, 2, 4, 8
COMPAT_CHECKSUM = 1
INC_REVOKE, INC_64BIT, INC_ASYNC, INC_CSUM2, INC_CSUM3 = 1, 2, 4, 8, 0x10

class JFmt(object):
    def __init__(self, b64=False, csum='none', async_commit=False, same_uuid=True):
        self.b64, self.csum, self.async_commit, self.same_uuid = b64, csum, async_commit, same_uuid
    def compat(self):
        return COMPAT_CHECKSUM if self.csum == 'v1' else 0
    def incompat(self):
        return INC_REVOKE | (INC_64BIT if self.b64 else 0) | (INC_ASYNC if self.async_commit else 0) | \
            (INC_CSUM2 if self.csum == 'v2' else 0) | (INC_CSUM3 if self.csum == 'v3' else 0)
    def name(self):
        return '%s-%s%s%s' % ('64' if self.b64 else '32', self.csum, '-async' if self.async_commit else '', '' if self.same_uuid else '-uuids')
    @staticmethod
    def all():
        out = []
        for b64 in (False, True):
            for csum in ('none', 'v1', 'v2', 'v3'):
                for a in (False, True):
                    for su in (True, False):
                        out.append(JFmt(b64, csum, a, su))
        return out

def tag_bytes(incompat):
    """size of one block tag for a journal with these incompat features"""
    if incompat & INC_CSUM3:
        return 16
    n = 8                                   # blocknr(4) checksum(2) flags(2)
    if incompat & INC_CSUM2:
        n += 2
    if incompat & INC_64BIT:
        n += 4
    return n

def hdr(bt, seq):
    return struct.pack('>III', MAGIC, bt, seq & 0xffffffff)

class Journal(object):
    """Builds a log.  blocks[logical] = bytes for every journal block written (the superblock is block 0)."""
    def __init__(self, fmt, bs, maxlen, uuid, first=1, fs_uuid=None, nr_users=1, users=b''):
        self.fmt, self.bs, self.maxlen, self.first, self.uuid = fmt, bs, maxlen, first, uuid
        self.fs_uuid = fs_uuid or uuid
        self.nr_users, self.users = nr_users, users
        self.blocks = {}
        self.log = []           # (logical, kind, txn index, info) in write order
        self.seed = crc32c(0xffffffff, uuid)
        self.pos = None
        self.start = None
        self.seq0 = None
        self.next_seq = None

    def begin(self, start, seq):
        self.pos = self.start = start
        self.seq0 = self.next_seq = seq

    def _put(self, data, kind, t, info=None):
        assert len(data) == self.bs
        p = self.pos
        self.blocks[p] = bytes(data)
        self.log.append((p, kind, t, info))
        self.pos += 1
        if self.pos >= self.maxlen:
            self.pos = self.first + (self.pos - self.maxlen)
        return p

    def superblock(self, start=None, seq=None):
        f = self.fmt
        sb = bytearray(1024)
        struct.pack_into('>III', sb, 0, MAGIC, BT_SBV2, 0)
        struct.pack_into('>III', sb, 0x0C, self.bs, self.maxlen, self.first)
        struct.pack_into('>II', sb, 0x18, self.seq0 if seq is None else seq, self.start if start is None else start)
        struct.pack_into('>III', sb, 0x24, f.compat(), f.incompat(), 0)
        sb[0x30:0x40] = self.uuid
        struct.pack_into('>I', sb, 0x40, self.nr_users)
        sb[0x100:0x100 + len(self.users)] = self.users
        if f.csum in ('v2', 'v3'):
            sb[0x50] = 4
            struct.pack_into('>I', sb, 0xFC, crc32c(0xffffffff, bytes(sb)))
        return bytes(sb) + b'\0' * (self.bs - 1024)

    def _tail(self, blk):
        if self.fmt.csum in ('v2', 'v3'):
            struct.pack_into('>I', blk, self.bs - 4, 0)
            struct.pack_into('>I', blk, self.bs - 4, crc32c(self.seed, bytes(blk)))

    def add_txn(self, items, commit=True, ctime=1000, seq=None, t=None, v1_unused=False):
        """items: ('R', [blocknr...]) | ('D', [(blocknr, payload), ...]).  One transaction with sequence next_seq."""
        f = self.fmt
        seq = self.next_seq if seq is None else seq
        t = (seq - self.seq0) if t is None else t
        tb = tag_bytes(f.incompat())
        csz = 4 if f.csum in ('v2', 'v3') else 0
        crc_v1 = 0xffffffff
        for it in items:
            if it[0] == 'R':
                rl = 8 if f.b64 else 4
                recs = list(it[1])
                per = (self.bs - 16 - csz) // rl
                while True:
                    chunk, recs = recs[:per], recs[per:]
                    b = bytearray(self.bs)
                    b[0:12] = hdr(BT_REVOKE, seq)
                    struct.pack_into('>I', b, 12, 16 + rl * len(chunk))
                    for i, r in enumerate(chunk):
                        struct.pack_into('>Q' if f.b64 else '>I', b, 16 + rl * i, r)
                    self._tail(b)
                    self._put(b, 'revoke', t, list(chunk))
                    if not recs:
                        break
            else:
                tags = list(it[1])
                while tags:
                    # how many tags fit into one descriptor block
                    room = self.bs - 12 - csz
                    n = 0; used = 0
                    while n < len(tags):
                        need = tb + (16 if (n == 0 or not f.same_uuid) else 0)
                        if used + need > room: break
                        used += need; n += 1
                    chunk, tags = tags[:n], tags[n:]
                    d = bytearray(self.bs)
                    d[0:12] = hdr(BT_DESC, seq)
                    o = 12
                    datas = []
                    for i, (blk, payload) in enumerate(chunk):
                        assert len(payload) == self.bs
                        fl = 0
                        logged = payload
                        if payload[:4] == struct.pack('>I', MAGIC):
                            fl |= F_ESCAPE
                            logged = b'\0\0\0\0' + payload[4:]
                        if i > 0 and f.same_uuid: fl |= F_SAME_UUID
                        if i == len(chunk) - 1: fl |= F_LAST
                        c = crc32c(crc32c(self.seed, struct.pack('>I', seq & 0xffffffff)), logged)
                        if f.csum == 'v3':
                            struct.pack_into('>IIII', d, o, blk & 0xffffffff, fl, blk >> 32, c)
                        else:
                            struct.pack_into('>IHH', d, o, blk & 0xffffffff, (c & 0xffff) if f.csum == 'v2' else 0, fl)
                            if f.b64: struct.pack_into('>I', d, o + 8, blk >> 32)
                        o += tb
                        if not (fl & F_SAME_UUID):
                            d[o:o + 16] = self.fs_uuid; o += 16
                        datas.append((blk, logged, fl))
                    self._tail(d)
                    self._put(d, 'desc', t, [x[0] for x in chunk])
                    crc_v1 = crc32be(crc_v1, bytes(d))
                    for blk, logged, fl in datas:
                        self._put(logged, 'data', t, blk)
                        crc_v1 = crc32be(crc_v1, logged)
        if commit:
            c = bytearray(self.bs)
            c[0:12] = hdr(BT_COMMIT, seq)
            if f.csum == 'v1' and not v1_unused:        # (v1_unused: checksum type, size and value all zero = "no checksum recorded", which the format allows)
                c[12] = 1; c[13] = 4
                struct.pack_into('>I', c, 16, crc_v1)
            struct.pack_into('>QI', c, 48, ctime, 0)
            if f.csum in ('v2', 'v3'):
                struct.pack_into('>I', c, 16, crc32c(self.seed, bytes(c)))
            self._put(c, 'commit', t, ctime)
        self.next_seq = seq + 1
        return seq

# ------------------------------------------------------------------------------------------------------------------
# Reference recovery model

class Verdict(object):
    """exact: writes = ordered list of (fs block, bytes) that recovery must have applied (last one wins);
    refused: the journal as a whole is rejected; nothing after `bound_txn` may be applied.
    alt: list of alternative write lists that are also acceptable (upper-bound classes)."""
    def __init__(self):
        self.kind = 'exact'; self.writes = []; self.alts = []; self.error = False; self.reason = ''
        self.touched = set(); self.committed = 0; self.end_seq = None

def _tid_gt(a, b):
    return ((a - b) & 0xffffffff) != 0 and ((a - b) & 0xffffffff) < 0x80000000
def _tid_geq(a, b):
    return ((a - b) & 0xffffffff) < 0x80000000

def recover_model(read, bs):
    """read(logical block) -> bytes.  Returns a Verdict, or None when the journal superblock itself is not acceptable."""
    sb = read(0)
    magic, bt, _ = struct.unpack_from('>III', sb, 0)
    if magic != MAGIC or bt not in (BT_SBV1, BT_SBV2):
        return None
    jbs, maxlen, first, seq, start = struct.unpack_from('>IIIII', sb, 0x0C)
    compat, incompat, ro = struct.unpack_from('>III', sb, 0x24) if bt == BT_SBV2 else (0, 0, 0)
    uuid = sb[0x30:0x40]
    v = Verdict()
    v.end_seq = seq
    if start == 0:
        return v
    csum23 = bool(incompat & (INC_CSUM2 | INC_CSUM3))
    v1 = bool(compat & COMPAT_CHECKSUM)
    seed = crc32c(0xffffffff, uuid)
    tb = tag_bytes(incompat)
    csz = 4 if csum23 else 0
    is_async = bool(incompat & INC_ASYNC)
    def nxt(p):
        p += 1
        return p - (maxlen - first) if p >= maxlen else p
    def tail_ok(b):
        if not csum23: return True
        return struct.unpack_from('>I', b, bs - 4)[0] == crc32c(seed, b[:bs - 4] + b'\0\0\0\0')
    def parse_tags(b):
        out = []; o = 12
        while o + tb <= bs - csz:
            if incompat & INC_CSUM3:
                lo, fl, hi, c = struct.unpack_from('>IIII', b, o); fl &= 0xffff
            else:
                lo, c, fl = struct.unpack_from('>IHH', b, o)
                hi = struct.unpack_from('>I', b, o + 8)[0] if incompat & INC_64BIT else 0
            blk = lo | ((hi << 32) if incompat & INC_64BIT else 0)
            out.append((blk, fl, c))
            o += tb
            if not (fl & F_SAME_UUID): o += 16
            if fl & F_LAST: break
        return out
    # ---- pass 1: find the transactions that are completely and validly committed
    txns = []           # per committed transaction: dict(seq, tags=[(blk, flags, csum, logged bytes)], revokes=[blk])
    pos = start; expect = seq
    last_ctime = 0
    suspect = False             # a descriptor/revoke block of the current scan failed its checksum
    crc_acc = 0xffffffff
    cur = {'seq': expect, 'tags': [], 'revokes': [], 'bad_rcount': False}
    steps = 0
    bad_from = None             # first transaction that must not be applied (checksum-invalid), if any
    failed_commit = False
    while True:
        steps += 1
        if steps > 4 * maxlen + 16:
            break
        b = read(pos); pos = nxt(pos)
        m, btype, s = struct.unpack_from('>III', b, 0)
        if m != MAGIC or s != (expect & 0xffffffff):
            break
        if btype == BT_DESC:
            if not tail_ok(b):
                suspect = True
            tags = parse_tags(b)
            crc_acc = crc32be(crc_acc, b)
            for blk, fl, c in tags:
                data = read(pos); pos = nxt(pos)
                crc_acc = crc32be(crc_acc, data)
                cur['tags'].append((blk, fl, c, data))
                v.touched.add(blk)
        elif btype == BT_REVOKE:
            if not tail_ok(b):
                suspect = True
            rc = struct.unpack_from('>I', b, 12)[0]
            if rc > bs - csz:
                cur['bad_rcount'] = True
            else:
                rl = 8 if incompat & INC_64BIT else 4
                o = 16
                while o + rl <= rc:
                    cur['revokes'].append(struct.unpack_from('>Q' if rl == 8 else '>I', b, o)[0]); o += rl
        elif btype == BT_COMMIT:
            ctime = struct.unpack_from('>Q', b, 48)[0]
            if suspect:
                if ctime >= last_ctime:
                    # a checksum-invalid descriptor/revoke block inside a transaction that really belongs to this log:
                    # the whole journal is refused
                    v.kind = 'refused'; v.error = True; v.reason = 'descriptor/revoke block checksum invalid in transaction %d' % expect
                    bad_from = len(txns)
                    break
                break       # stale block from an older use of the log: clean end
            ok = True
            if v1:
                typ, size = b[12], b[13]
                found = struct.unpack_from('>I', b, 16)[0]
                if not ((typ == 1 and size == 4 and found == crc_acc) or (typ == 0 and size == 0 and found == 0)):
                    ok = False
                crc_acc = 0xffffffff
            if ok and csum23:
                if struct.unpack_from('>I', b, 16)[0] != crc32c(seed, b[:16] + b'\0\0\0\0' + b[20:]):
                    ok = False
            if not ok:
                if ctime < last_ctime:
                    break   # stale
                v.error = True
                failed_commit = True
                v.reason = 'commit block checksum invalid in transaction %d' % expect
                break       # replay stops in front of this transaction (sync and async alike: nothing from it or later is applied)
            last_ctime = ctime
            txns.append(cur)
            expect += 1
            cur = {'seq': expect, 'tags': [], 'revokes': [], 'bad_rcount': False}
        else:
            break
    v.committed = len(txns)
    v.end_seq = expect
    # ---- pass 2: revoke table over the committed transactions
    revoked = {}
    for t in txns:
        if t['bad_rcount']:
            v.kind = 'refused'; v.error = True; v.reason = 'revoke block with impossible r_count'
            if bad_from is None: bad_from = txns.index(t)
        for r in t['revokes']:
            if r not in revoked or _tid_gt(t['seq'], revoked[r]):
                revoked[r] = t['seq']
    # ---- pass 3: replay
    def replay(upto, skip_bad_tags=True):
        w = []; tagerr = None
        for ti, t in enumerate(txns[:upto]):
            for blk, fl, c, data in t['tags']:
                if blk in revoked and _tid_geq(revoked[blk], t['seq']):
                    continue
                if csum23:
                    want = crc32c(crc32c(seed, struct.pack('>I', t['seq'] & 0xffffffff)), data)
                    if (incompat & INC_CSUM3 and c != want) or (not (incompat & INC_CSUM3) and c != (want & 0xffff)):
                        if tagerr is None: tagerr = ti
                        continue
                if fl & F_ESCAPE:
                    data = struct.pack('>I', MAGIC) + data[4:]
                w.append((blk, data))
        return w, tagerr
    if v.kind == 'refused':
        # nothing at all, or everything in front of the offending transaction
        v.writes = []
        v.alts = [replay(bad_from)[0]] if bad_from else []
        return v
    w, tagerr = replay(len(txns))
    v.writes = w
    if tagerr is not None:
        # a logged block failed its tag checksum: it is skipped; whether the rest of the log is applied is not the property's business
        v.error = True; v.kind = 'tagerr'; v.reason = 'data block tag checksum invalid in transaction index %d' % tagerr
        v.alts = [replay(tagerr)[0]]
    return v

def final_contents(writes):
    out = {}
    for blk, data in writes:
        out[blk] = data
    return out
