"""Canonical listing of an image's namespace: path -> attributes, compared by path (inode numbers may change)."""
import hashlib
from .image import *

XATTR_PREFIX = {1: b'user.', 2: b'system.posix_acl_access', 3: b'system.posix_acl_default', 4: b'trusted.', 6: b'security.', 7: b'system.', 8: b'system.richacl'}

def xattr_name(e):
    return XATTR_PREFIX.get(e['index'], b'?%d.' % e['index']) + e['name']

def tree(img, with_hash=True, max_nodes=200000):
    """returns dict path(bytes) -> dict(...)"""
    if img.inodes_count > 40000 or img.blocks_count > (1 << 20):
        raise Malformed('image outside the size scope of xck.tree')
    out = {}
    links = {}
    def visit(path, ino, depth):
        if len(out) > max_nodes or depth > 64:
            raise Malformed('tree too large / too deep')
        I = img.inode(ino)
        ent = {'type': I.fmt, 'mode': I.i_mode & 0o7777, 'uid': I.uid, 'gid': I.gid, 'nlink': I.i_links_count, 'mtime': I.i_mtime}
        if I.is_reg() or I.is_lnk():
            ent['size'] = I.size
        xs = {}
        for e, v, w in img.inode_xattrs(I):
            if e['index'] == 7 and e['name'] == b'data':
                continue
            xs[xattr_name(e).decode('latin1')] = hashlib.sha256(v).hexdigest()[:16] if len(v) > 64 else v.decode('latin1')
        if xs:
            ent['xattrs'] = xs
        if I.is_reg():
            if with_hash:
                ent['sha'] = hashlib.sha256(img.read_file(I)).hexdigest()[:24]
            ent['mapped'] = hashlib.sha256(repr(img.hole_map(I)).encode()).hexdigest()[:12]
        elif I.is_lnk():
            ent['target'] = img.read_file(I).decode('latin1')
        elif I.fmt in (S_IFCHR, S_IFBLK):
            b0, b1 = u32(I.i_block, 0), u32(I.i_block, 4)
            if b0:
                ent['rdev'] = ((b0 >> 8) & 0xff, b0 & 0xff)
            else:
                ent['rdev'] = (((b1 & 0xfff00) >> 8), (b1 & 0xff) | ((b1 >> 12) & 0xfff00))
        links.setdefault(ino, []).append(path)
        out[path] = ent
        if I.is_dir():
            names = set()
            for name, child, ft, l in img.read_dir(I):
                if name in (b'.', b'..'):
                    continue
                if name in names:
                    raise Malformed('duplicate name %r in %r' % (name, path))
                names.add(name)
                p = path.rstrip(b'/') + b'/' + name
                if p in out:
                    raise Malformed('path loop')
                ci = img.inode(child)
                if ci.is_dir() and child in links:
                    raise Malformed('directory hard link')
                visit(p, child, depth + 1)
    visit(b'/', 2, 0)
    # hard-link groups by path set
    for ino, ps in links.items():
        if len(ps) > 1:
            grp = sorted(ps)
            for p in ps:
                out[p]['linkgroup'] = [x.decode('latin1') for x in grp]
    return {k.decode('latin1'): v for k, v in out.items()}

def diff(a, b, ignore=()):
    """list of human-readable differences between two listings"""
    d = []
    for p in sorted(set(a) | set(b)):
        if p not in a: d.append('+ %s' % p); continue
        if p not in b: d.append('- %s' % p); continue
        for k in sorted(set(a[p]) | set(b[p])):
            if k in ignore: continue
            if a[p].get(k) != b[p].get(k):
                d.append('~ %s %s: %r -> %r' % (p, k, a[p].get(k), b[p].get(k)))
    return d
