"""Field catalogue: every (object, field) of an image's metadata with its absolute byte offset, size and value class,
plus re-sealing of checksums with xck's own implementation (so a mutation reaches the logic behind the checksum gate)."""
import struct
from .image import *
from .crc import crc32c

class Field(object):
    __slots__ = ('obj', 'name', 'off', 'size', 'klass', 'seal')
    def __init__(self, obj, name, off, size, klass, seal=None):
        self.obj, self.name, self.off, self.size, self.klass, self.seal = obj, name, off, size, klass, seal
    def id(self):
        return '%s.%s' % (self.obj, self.name)

def _klass(name):
    n = name
    if 'csum' in n or 'checksum' in n: return 'csum'
    if n in ('bg_block_bitmap_lo', 'bg_inode_bitmap_lo', 'bg_inode_table_lo', 'i_file_acl_lo', 's_mmp_block', 'ptr', 'ee_start_lo', 'ei_leaf_lo', 'dx_block') or n.startswith('i_block['): return 'blk'
    if n in ('inode', 's_journal_inum', 's_last_orphan', 's_usr_quota_inum', 's_grp_quota_inum', 's_prj_quota_inum', 's_orphan_file_inum', 'e_value_inum', 's_first_ino'): return 'ino'
    if n in ('i_mode',): return 'mode'
    if 'flags' in n or 'feature' in n: return 'flags'
    if n in ('i_size_lo', 'i_size_high', 'rec_len', 'name_len', 'ee_len', 'ee_block', 'ei_block', 'e_value_size', 'e_value_offs', 'e_name_len', 'i_extra_isize', 'i_blocks_lo'): return 'len'
    if 'count' in n or 'limit' in n or n in ('eh_entries', 'eh_max', 'eh_depth', 'i_links_count', 'bg_itable_unused_lo', 'h_refcount'): return 'count'
    return 'misc'

def catalogue(img, inode_classes=True, max_dirents=4):
    """returns list of Field for the image (bounded per object so that a sweep stays a few thousand mutants)"""
    F = []
    bs = img.bs
    def add(obj, name, off, size, seal=None, klass=None):
        F.append(Field(obj, name, off, size, klass or _klass(name), seal))
    # superblock
    for name, off, size in SB_FIELDS:
        add('sb', name, 1024 + off, size, ('sb',))
    for i in range(4):
        add('sb', 's_hash_seed[%d]' % i, 1024 + 0xEC + 4 * i, 4, ('sb',), 'misc')
    add('sb', 's_uuid[0]', 1024 + 0x68, 1, ('sb',), 'misc')
    add('sb', 's_jnl_blocks[0]', 1024 + 0x10C, 4, ('sb',), 'misc')
    # descriptors
    for g in range(img.groups):
        blk, off = img.gd_location(g)
        for name, o, size in GD_FIELDS + (GD_FIELDS_HI if img.desc_size >= 64 else []):
            add('gd%d' % g, name, blk * bs + off + o, size, ('gd', g))
    # bitmaps: all bits of group 0 and the last group, boundary bits elsewhere
    for g in range(img.groups):
        gd = img.gd[g]
        for kind, b, n in (('bb', gd.block_bitmap, img.cpg), ('ib', gd.inode_bitmap, img.ipg)):
            if b == 0 or b >= img.blocks_count: continue
            if g in (0, img.groups - 1):
                bits = range(min(n, 256))
            else:
                bits = sorted(set([0, 1, 7, 8, n // 2, n - 1]))
            for i in bits:
                add('%s%d' % (kind, g), 'bit%d' % i, b * bs + (i >> 3), 1, (kind, g), 'bit%d' % (i & 7))
            add('%s%d' % (kind, g), 'padbyte', b * bs + bs - 1, 1, (kind, g), 'misc')
    # inodes: one representative per class + all reserved ones in use
    seen_cls = set()
    dirs_done = 0
    for ino in range(1, img.inodes_count + 1):
        g = (ino - 1) // img.ipg
        bm = img.inode_bitmap(g)
        if bm is None: continue
        idx = (ino - 1) % img.ipg
        used = (bm[idx >> 3] >> (idx & 7)) & 1
        try:
            I = img.inode(ino)
        except Malformed:
            break
        if not used or (I.i_mode == 0 and ino >= img.first_ino):
            cls = ('unused',)
            if cls in seen_cls or ino < img.first_ino: continue
        else:
            nblk = min(I.i_blocks_lo // (bs // 512), 20)
            cls = (I.fmt, I.i_flags & (FL_EXTENTS | FL_INLINE_DATA | FL_INDEX | FL_EA_INODE), bool(I.file_acl), nblk > 0, nblk > 12, I.size > bs, ino < img.first_ino and ino)
        if inode_classes and cls in seen_cls: continue
        seen_cls.add(cls)
        base = img.inode_loc(ino)
        obj = 'ino%d' % ino
        seal = ('ino', ino)
        for name, off, size in INODE_FIELDS + (INODE_FIELDS_EXTRA if img.inode_size > 128 else []):
            add(obj, name, base + off, size, seal)
        if cls == ('unused',): continue
        if I.i_flags & FL_EXTENTS and not (I.i_flags & FL_INLINE_DATA):
            _extent_node(add, obj, base + 40, I.i_block, seal, 4)
            try:
                def cb(blkno, raw, depth):
                    if blkno is not None:
                        _extent_node(add, '%s.etb%d' % (obj, blkno), blkno * bs, raw, ('etb', ino, blkno), 3)
                img.walk_extents(I, cb)
            except Malformed:
                pass
        elif not (I.i_flags & FL_INLINE_DATA) and I.fmt in (S_IFREG, S_IFDIR, S_IFLNK) and not (I.is_lnk() and img.fast_symlink(I)):
            for i in range(15):
                add(obj, 'i_block[%d]' % i, base + 40 + 4 * i, 4, seal)
            try:
                m, meta = img.walk_blockmap(I)
                for mb in meta[:3]:
                    for i in (0, 1, bs // 4 - 1):
                        add('%s.ind%d' % (obj, mb), 'ptr[%d]' % i, mb * bs + 4 * i, 4, None, 'blk')
            except Malformed:
                pass
        else:
            for i in (0, 1, 14):
                add(obj, 'i_block_raw[%d]' % i, base + 40 + 4 * i, 4, seal, 'misc')
        # in-inode xattr area
        if img.inode_size > 128:
            st = 128 + I.i_extra_isize
            if st + 4 <= img.inode_size and u32(I.raw, st) == 0xEA020000:
                add(obj, 'ea_magic', base + st, 4, seal, 'misc')
                _xattr_entries(add, img, obj + '.iea', I.raw, st + 4, base, seal)
        if I.file_acl and I.file_acl < img.blocks_count:
            xb = I.file_acl
            raw = img.blk(xb)
            xo = '%s.xb%d' % (obj, xb)
            for name, off in (('h_magic', 0), ('h_refcount', 4), ('h_blocks', 8), ('h_hash', 12), ('h_checksum', 16)):
                add(xo, name, xb * bs + off, 4, ('xb', xb))
            _xattr_entries(add, img, xo, raw, 32, xb * bs, ('xb', xb))
        if I.is_dir() and dirs_done < 12:
            dirs_done += 1
            _dir_fields(add, img, ino, I, obj, max_dirents)
    # journal superblock
    if (img.compat & COMPAT_HAS_JOURNAL) and img.sb.s_journal_inum:
        try:
            J = img.inode(img.sb.s_journal_inum)
            blocks, _ = img.file_blocks(J)
            if blocks:
                jb = blocks[0][1]
                for name, off, size in (('h_magic', 0, 4), ('h_blocktype', 4, 4), ('h_sequence', 8, 4), ('s_blocksize', 12, 4), ('s_maxlen', 16, 4), ('s_first', 20, 4),
                                        ('s_sequence', 24, 4), ('s_start', 28, 4), ('s_errno', 32, 4), ('s_feature_compat', 36, 4), ('s_feature_incompat', 40, 4),
                                        ('s_feature_ro_compat', 44, 4), ('s_nr_users', 64, 4), ('s_checksum_type', 0x50, 1), ('s_checksum', 0xFC, 4)):
                    add('jsb', name, jb * bs + off, size, ('jsb', jb), 'be')
        except Malformed:
            pass
    # MMP
    if img.incompat & INCOMPAT_MMP and 0 < img.sb.s_mmp_block < img.blocks_count:
        mb = img.sb.s_mmp_block
        for name, off, size in (('mmp_magic', 0, 4), ('mmp_seq', 4, 4), ('mmp_time', 8, 8), ('mmp_check_interval', 0x70, 2), ('mmp_checksum', 0x3FC, 4)):
            add('mmp', name, mb * bs + off, size, ('mmp', mb))
    return F

def _extent_node(add, obj, base, raw, seal, max_entries):
    magic, entries, mx, depth = struct.unpack_from('<HHHH', raw, 0)
    for name, off in (('eh_magic', 0), ('eh_entries', 2), ('eh_max', 4), ('eh_depth', 6)):
        add(obj, name, base + off, 2, seal)
    n = min(entries, mx, max_entries, (len(raw) - 12) // 12)
    idxs = list(range(n))
    if entries > n and entries <= (len(raw) - 12) // 12: idxs.append(entries - 1)
    for i in idxs:
        o = 12 + 12 * i
        if depth == 0:
            for name, off, size in (('ee_block', 0, 4), ('ee_len', 4, 2), ('ee_start_hi', 6, 2), ('ee_start_lo', 8, 4)):
                add(obj, 'ext[%d].%s' % (i, name), base + o + off, size, seal, _klass(name))
        else:
            for name, off, size in (('ei_block', 0, 4), ('ei_leaf_lo', 4, 4), ('ei_leaf_hi', 8, 2)):
                add(obj, 'idx[%d].%s' % (i, name), base + o + off, size, seal, _klass(name))

def _xattr_entries(add, img, obj, raw, start, base, seal):
    o = start; k = 0
    while o + 16 <= len(raw) and u32(raw, o) != 0 and k < 4:
        nl = raw[o]
        for name, off, size in (('e_name_len', 0, 1), ('e_name_index', 1, 1), ('e_value_offs', 2, 2), ('e_value_inum', 4, 4), ('e_value_size', 8, 4), ('e_hash', 12, 4)):
            add(obj, 'e[%d].%s' % (k, name), base + o + off, size, seal, _klass(name))
        add(obj, 'e[%d].name0' % k, base + o + 16, 1, seal, 'misc')
        o += (16 + nl + 3) & ~3; k += 1
    add(obj, 'terminator', base + o, 4, seal, 'misc')

def _dir_fields(add, img, ino, I, obj, max_dirents):
    bs = img.bs
    if I.i_flags & FL_INLINE_DATA:
        base = img.inode_loc(ino) + 40
        add(obj + '.inl', 'parent', base, 4, ('ino', ino), 'ino')
        raw = I.i_block
        try:
            for k, (o, cino, rl, nl, ft, name) in enumerate(img.dirent_iter(raw, 4, 60)):
                if k >= max_dirents: break
                for nm, off, size in (('inode', 0, 4), ('rec_len', 4, 2), ('name_len', 6, 1), ('file_type', 7, 1), ('name0', 8, 1)):
                    add(obj + '.inl', 'de[%d].%s' % (k, nm), base + o + off, size, ('ino', ino), _klass(nm))
        except Malformed:
            pass
        return
    try:
        blocks, _ = img.file_blocks(I)
    except Malformed:
        return
    indexed = bool(I.i_flags & FL_INDEX)
    for l, p, un in blocks[:3] + blocks[-1:]:
        raw = img.blk(p)
        dobj = '%s.dblk%d' % (obj, l)
        seal = ('dirblk', ino, p)
        if indexed and l == 0:
            for nm, off, size in (('dot.inode', 0, 4), ('dot.rec_len', 4, 2), ('dotdot.inode', 12, 4), ('dotdot.rec_len', 16, 2), ('dx.reserved', 24, 4), ('dx.hash_version', 28, 1),
                                  ('dx.info_length', 29, 1), ('dx.indirect_levels', 30, 1), ('dx.unused_flags', 31, 1), ('dx.limit', 32, 2), ('dx.count', 34, 2), ('dx.block0', 36, 4)):
                add(dobj, nm, p * bs + off, size, ('dxblk', ino, p, 32), 'ino' if nm.endswith('inode') else 'len' if nm.endswith('rec_len') else 'count' if nm in ('dx.limit', 'dx.count') else 'misc')
            cnt = min(u16(raw, 34), 4)
            for i in range(1, cnt):
                add(dobj, 'dx.e[%d].hash' % i, p * bs + 32 + 8 * i, 4, ('dxblk', ino, p, 32), 'misc')
                add(dobj, 'dx.e[%d].block' % i, p * bs + 36 + 8 * i, 4, ('dxblk', ino, p, 32), 'count')
            continue
        if indexed and u32(raw, 0) == 0 and u16(raw, 4) == bs:
            for nm, off, size in (('fake.inode', 0, 4), ('fake.rec_len', 4, 2), ('dx.limit', 8, 2), ('dx.count', 10, 2), ('dx.block0', 12, 4)):
                add(dobj, nm, p * bs + off, size, ('dxblk', ino, p, 8), 'count' if 'dx.' in nm else 'len' if 'rec_len' in nm else 'ino')
            continue
        try:
            lst = list(img.dirent_iter(raw))
        except Malformed:
            continue
        pick = lst[:max_dirents] + lst[-2:]
        done = set()
        for k, (o, cino, rl, nl, ft, name) in enumerate(pick):
            if o in done: continue
            done.add(o)
            for nm, off, size in (('inode', 0, 4), ('rec_len', 4, 2), ('name_len', 6, 1), ('file_type', 7, 1), ('name0', 8, 1)):
                add(dobj, 'de@%d.%s' % (o, nm), p * bs + o + off, size, seal, _klass(nm) if nm != 'file_type' else 'misc')
        if img.has_csum:
            add(dobj, 'tail.csum', p * bs + bs - 4, 4, seal, 'csum')

# ---------------------------------------------------------------------------------------------- value alphabets
def values(img, f, old):
    """candidate new values for a field (excluding the old one)"""
    bits = f.size * 8
    mask = (1 << bits) - 1
    if f.klass.startswith('bit'):
        return [old ^ (1 << int(f.klass[3:]))]
    v = set([0, 1, (old + 1) & mask, (old - 1) & mask, mask, old ^ (1 << (bits - 1)), old ^ 1])
    if f.klass == 'blk':
        g0 = img.gd[0]
        v |= set([img.first_data_block, img.blocks_count - 1, img.blocks_count, 1 if img.bs == 1024 else 0, g0.block_bitmap, g0.inode_table, g0.inode_table + 1,
                  img.gd[-1].inode_bitmap, old + 2])
    elif f.klass == 'ino':
        v |= set([2, 5, 7, 8, img.first_ino, img.inodes_count, img.inodes_count + 1, img.first_ino + 1])
    elif f.klass == 'len':
        v |= set([img.bs - 1, img.bs, img.bs + 1, 4, 8, 12, 0x7fff, 0x8000, old + 4, old + 8, 2 * old])
    elif f.klass == 'mode':
        v |= set([0o100644, 0o040755, 0o120777, 0o020600, 0o060600, 0o010600, 0o140600, 0o170000, old ^ 0o170000, old & 0o7777])
    elif f.klass == 'flags':
        v |= set([old ^ (1 << i) for i in range(bits)])
    elif f.klass == 'count':
        v |= set([2, 3, 4, old + 2, 0x7fff, 340, 65000])
    elif f.klass == 'be':
        o = int.from_bytes(old.to_bytes(f.size, 'little'), 'big')
        v = set(int.from_bytes((x & mask).to_bytes(f.size, 'big'), 'little') for x in (0, 1, o + 1, o - 1, mask, o ^ 1, o ^ (1 << (bits - 1)), 2, 4))
    return sorted(x & mask for x in v if (x & mask) != old)

# ---------------------------------------------------------------------------------------------- re-sealing
def reseal(buf, img, seal):
    """recompute the checksum protecting the object described by `seal` inside bytearray `buf` (geometry from `img`)."""
    if seal is None: return
    bs = img.bs
    kind = seal[0]
    if kind == 'sb':
        if img.has_csum:
            struct.pack_into('<I', buf, 1024 + 0x3FC, crc32c(0xffffffff, bytes(buf[1024:1024 + 0x3FC])))
    elif kind == 'gd':
        g = seal[1]
        blk, off = img.gd_location(g)
        o = blk * bs + off
        if img.has_csum:
            raw = bytearray(buf[o:o + img.desc_size]); raw[30:32] = b'\0\0'
            c = crc32c(crc32c(img.csum_seed, struct.pack('<I', g)), bytes(raw)) & 0xffff
            struct.pack_into('<H', buf, o + 30, c)
        elif img.has_gdt_csum:
            from .crc import crc16
            raw = bytes(buf[o:o + img.desc_size])
            c = crc16(crc16(crc16(0xffff, img.uuid), struct.pack('<I', g)), raw[:30])
            if img.is64 and img.desc_size > 32: c = crc16(c, raw[32:img.desc_size])
            struct.pack_into('<H', buf, o + 30, c)
    elif kind in ('bb', 'ib'):
        g = seal[1]
        if img.has_csum:
            gd = img.gd[g]
            blk, off = img.gd_location(g)
            o = blk * bs + off
            b = gd.block_bitmap if kind == 'bb' else gd.inode_bitmap
            n = (img.cpg if kind == 'bb' else img.ipg) // 8
            c = crc32c(img.csum_seed, bytes(buf[b * bs:b * bs + n]))
            lo_off, hi_off = (24, 56) if kind == 'bb' else (26, 58)
            struct.pack_into('<H', buf, o + lo_off, c & 0xffff)
            if img.desc_size >= 64: struct.pack_into('<H', buf, o + hi_off, c >> 16)
        if img.has_csum or img.has_gdt_csum:
            reseal(buf, img, ('gd', g))
    elif kind == 'ino':
        if img.has_csum:
            ino = seal[1]
            o = img.inode_loc(ino)
            raw = bytearray(buf[o:o + img.inode_size])
            gen = u32(raw, 100)
            has_hi = img.inode_size > 128 and u16(raw, 128) >= 4
            raw[124:126] = b'\0\0'
            if has_hi: raw[130:132] = b'\0\0'
            c = crc32c(img.inode_csum_seed(ino, gen), bytes(raw))
            struct.pack_into('<H', buf, o + 124, c & 0xffff)
            if has_hi: struct.pack_into('<H', buf, o + 130, c >> 16)
    elif kind == 'etb':
        if img.has_csum:
            ino, b = seal[1], seal[2]
            gen = u32(buf, img.inode_loc(ino) + 100)
            mx = u16(buf, b * bs + 4)
            t = 12 + 12 * mx
            if t + 4 <= bs:
                struct.pack_into('<I', buf, b * bs + t, crc32c(img.inode_csum_seed(ino, gen), bytes(buf[b * bs:b * bs + t])))
    elif kind == 'dirblk':
        if img.has_csum:
            ino, b = seal[1], seal[2]
            gen = u32(buf, img.inode_loc(ino) + 100)
            struct.pack_into('<I', buf, b * bs + bs - 4, crc32c(img.inode_csum_seed(ino, gen), bytes(buf[b * bs:b * bs + bs - 12])))
    elif kind == 'dxblk':
        if img.has_csum:
            ino, b, co = seal[1], seal[2], seal[3]
            gen = u32(buf, img.inode_loc(ino) + 100)
            limit, count = u16(buf, b * bs + co), u16(buf, b * bs + co + 2)
            t = co + limit * 8
            if t + 8 <= bs and co + count * 8 <= bs:
                c = crc32c(img.inode_csum_seed(ino, gen), bytes(buf[b * bs:b * bs + co + count * 8]))
                c = crc32c(c, bytes(buf[b * bs + t:b * bs + t + 4])); c = crc32c(c, b'\0\0\0\0')
                struct.pack_into('<I', buf, b * bs + t + 4, c)
    elif kind == 'xb':
        if img.has_csum:
            b = seal[1]
            raw = bytearray(buf[b * bs:(b + 1) * bs]); raw[16:20] = b'\0\0\0\0'
            struct.pack_into('<I', buf, b * bs + 16, crc32c(crc32c(img.csum_seed, struct.pack('<Q', b)), bytes(raw)))
    elif kind == 'jsb':
        b = seal[1]
        feat = struct.unpack_from('>I', buf, b * bs + 40)[0]
        if feat & 0x18:
            raw = bytearray(buf[b * bs:b * bs + 1024]); raw[0xFC:0x100] = b'\0\0\0\0'
            struct.pack_into('>I', buf, b * bs + 0xFC, crc32c(0xffffffff, bytes(raw)))
    elif kind == 'mmp':
        if img.has_csum:
            b = seal[1]
            struct.pack_into('<I', buf, b * bs + 0x3FC, crc32c(img.csum_seed, bytes(buf[b * bs:b * bs + 0x3FC])))

# ---------------------------------------------------------------------------------------------- checksum coverage map
def csum_objects(img, max_dir_blocks=4, max_inodes=None):
    """live checksummed objects: list of (kind, id, [(start, end) absolute byte ranges covered by the object's checksum])"""
    out = []
    bs = img.bs
    if not img.has_csum:
        return out
    out.append(('sb', 0, [(1024, 2048)]))
    for g in range(img.groups):
        blk, off = img.gd_location(g)
        out.append(('gd', g, [(blk * bs + off, blk * bs + off + img.desc_size)]))
        gd = img.gd[g]
        if not (gd.bg_flags & BG_BLOCK_UNINIT):
            out.append(('bbitmap', g, [(gd.block_bitmap * bs, gd.block_bitmap * bs + img.cpg // 8)]))
        if not (gd.bg_flags & BG_INODE_UNINIT):
            out.append(('ibitmap', g, [(gd.inode_bitmap * bs, gd.inode_bitmap * bs + img.ipg // 8)]))
    if img.incompat & INCOMPAT_MMP and 0 < img.sb.s_mmp_block < img.blocks_count:
        out.append(('mmp', 0, [(img.sb.s_mmp_block * bs, img.sb.s_mmp_block * bs + 0x400)]))
    n_ino = 0
    seen_xb = set()
    dirblocks = 0
    for ino in range(1, img.inodes_count + 1):
        g = (ino - 1) // img.ipg
        bm = img.inode_bitmap(g)
        if bm is None: continue
        idx = (ino - 1) % img.ipg
        if not (bm[idx >> 3] >> (idx & 7)) & 1: continue
        I = img.inode(ino)
        if I.i_mode == 0 or (I.i_links_count == 0 and ino >= img.first_ino): continue
        if ino < img.first_ino and ino not in (2, 7, 8) and ino not in (img.sb.s_usr_quota_inum, img.sb.s_grp_quota_inum, img.sb.s_prj_quota_inum): continue
        n_ino += 1
        if max_inodes and n_ino > max_inodes: break
        loc = img.inode_loc(ino)
        out.append(('inode', ino, [(loc, loc + img.inode_size)]))
        try:
            if (I.i_flags & FL_EXTENTS) and not (I.i_flags & FL_INLINE_DATA) and I.fmt in (S_IFREG, S_IFDIR, S_IFLNK):
                def cb(blkno, raw, depth, ino=ino):
                    if blkno is not None:
                        mx = u16(raw, 4)
                        out.append(('extent_block', (ino, blkno), [(blkno * bs, blkno * bs + 12 + 12 * mx + 4)]))
                img.walk_extents(I, cb)
            if I.file_acl and I.file_acl not in seen_xb and 0 < I.file_acl < img.blocks_count:
                seen_xb.add(I.file_acl)
                out.append(('xattr_block', I.file_acl, [(I.file_acl * bs, (I.file_acl + 1) * bs)]))
            if I.is_dir() and not (I.i_flags & FL_INLINE_DATA) and dirblocks < 40:
                blocks, _ = img.file_blocks(I)
                indexed = bool(I.i_flags & FL_INDEX)
                pick = blocks[:max_dir_blocks] + (blocks[-1:] if len(blocks) > max_dir_blocks else [])
                for l, p, un in pick:
                    raw = img.blk(p)
                    dirblocks += 1
                    co = None
                    if indexed and l == 0: co = 32
                    elif indexed and u32(raw, 0) == 0 and u16(raw, 4) == bs: co = 8
                    if co is not None:
                        limit, count = u16(raw, co), u16(raw, co + 2)
                        t = co + limit * 8
                        out.append(('dx_node', (ino, p), [(p * bs, p * bs + co + count * 8), (p * bs + t, p * bs + t + 8)]))
                    else:
                        out.append(('dir_block', (ino, p), [(p * bs, (p + 1) * bs)]))
        except Malformed:
            pass
    return out

# ---------------------------------------------------------------------------------------------- metadata block set
def metadata_blocks(img):
    """set of block numbers that hold filesystem metadata (what a metadata-only image must preserve)"""
    M = set()
    for g in range(img.groups):
        M.update(img.group_overhead_blocks(g))
        gd = img.gd[g]
        M.add(gd.block_bitmap); M.add(gd.inode_bitmap)
        M.update(range(gd.inode_table, gd.inode_table + img.itb_per_group))
    if img.incompat & INCOMPAT_MMP and img.sb.s_mmp_block:
        M.add(img.sb.s_mmp_block)
    special = set([img.sb.s_journal_inum] if (img.compat & COMPAT_HAS_JOURNAL) else [])
    if img.ro & RO_QUOTA:
        special.update(x for x in (img.sb.s_usr_quota_inum, img.sb.s_grp_quota_inum, img.sb.s_prj_quota_inum) if x)
    if img.compat & COMPAT_ORPHAN_FILE and img.sb.s_orphan_file_inum:
        special.add(img.sb.s_orphan_file_inum)
    if img.compat & COMPAT_RESIZE_INODE:
        special.add(7)
    for ino in range(1, img.inodes_count + 1):
        g = (ino - 1) // img.ipg
        bm = img.inode_bitmap(g)
        if bm is None: continue
        idx = (ino - 1) % img.ipg
        if not (bm[idx >> 3] >> (idx & 7)) & 1: continue
        I = img.inode(ino)
        if I.i_mode == 0 or (I.i_links_count == 0 and ino >= img.first_ino): continue
        if ino < img.first_ino and ino != 2 and ino not in special: continue
        try:
            if I.file_acl: M.add(I.file_acl)
            if I.i_flags & FL_INLINE_DATA: continue
            if not (I.is_dir() or I.is_reg() or I.is_lnk()): continue
            if I.is_lnk() and img.fast_symlink(I): continue
            blocks, meta = img.file_blocks(I)
            M.update(meta)
            if I.is_dir() or ino in special or I.is_lnk():
                M.update(p for l, p, u in blocks)
        except Malformed:
            pass
    M.discard(0)
    return M
