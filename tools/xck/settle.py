"""settle(): after a block-pointer mutation, bring the *allocation summaries* back in line with the (mutated) pointer structure, using only
xck's own reading of the image: block bitmaps and per-group free counts follow the blocks that are actually referenced (in range), i_blocks of the
mutated inode follows the number of pointers it holds (also out-of-range ones), checksums are re-sealed.  The result breaks exactly the invariant
the pointer itself breaks (range / ownership) and nothing else -- which is what reaches e2fsck's range and ownership checks instead of its
summary comparisons.  Supported for non-bigalloc images; returns None when it cannot settle."""
import struct
from .image import *
from .check import Checker
from . import layout

def settle(data, ino=None):
    try:
        img = Image(data)
    except Malformed:
        return None
    if img.bigalloc or (img.incompat & INCOMPAT_EA_INODE):
        return None
    ck = Checker(img)
    try:
        ck.run()
    except Exception:
        return None
    if not hasattr(ck, 'inuse'):
        return None
    used = set(ck.owner) | set(ck.fixed)
    buf = bytearray(data)
    bs = img.bs
    for g in range(img.groups):
        gd = img.gd[g]
        if img.block_bitmap(g) is None:
            continue
        first = img.group_first_block(g); nb = img.group_nblocks(g)
        bm = bytearray(bs)
        free = 0
        for i in range(img.cpg):
            bit = 1 if (i >= nb or (first + i) in used) else 0
            if bit: bm[i >> 3] |= 1 << (i & 7)
            elif i < nb: free += 1
        for i in range(img.cpg, bs * 8): bm[i >> 3] |= 1 << (i & 7)
        buf[gd.block_bitmap * bs:(gd.block_bitmap + 1) * bs] = bm
        blk, off = img.gd_location(g)
        o = blk * bs + off
        struct.pack_into('<H', buf, o + 12, free & 0xffff)
        if img.desc_size >= 64: struct.pack_into('<H', buf, o + 44, free >> 16)
        layout.reseal(buf, img, ('bb', g))
        layout.reseal(buf, img, ('gd', g))
    # i_blocks of the mutated inode: number of block pointers it holds (in range or not) + its mapping blocks + its xattr block
    if ino is not None:
        try:
            I = img.inode(ino)
            n = None
            if I.i_flags & FL_INLINE_DATA:
                n = 0
            elif I.i_flags & FL_EXTENTS:
                n = _count_extent(img, I)
            elif not (I.is_lnk() and img.fast_symlink(I)) and (I.is_reg() or I.is_dir() or I.is_lnk()):
                n = _count_blockmap(img, I)
            if n is not None:
                if I.file_acl: n += 1
                o = img.inode_loc(ino)
                struct.pack_into('<I', buf, o + 28, n * (bs // 512))
                layout.reseal(buf, img, ('ino', ino))
        except (Malformed, struct.error, IndexError, RecursionError):
            pass
    layout.reseal(buf, img, ('sb',))
    return bytes(buf)

def _count_blockmap(img, I):
    ib = struct.unpack('<15I', I.i_block)
    apb = img.bs // 4
    n = sum(1 for p in ib[:12] if p)
    def ind(b, level, depth=0):
        nonlocal n
        if not b: return
        n += 1
        if b < img.first_data_block or b >= img.blocks_count or depth > 3: return
        ptrs = struct.unpack('<%dI' % apb, img.blk(b))
        for p in ptrs:
            if not p: continue
            if level == 1: n += 1
            else: ind(p, level - 1, depth + 1)
    ind(ib[12], 1); ind(ib[13], 2); ind(ib[14], 3)
    return n

def _count_extent(img, I):
    n = 0
    def node(raw, depth_guard):
        nonlocal n
        magic, entries, mx, depth = struct.unpack_from('<HHHH', raw, 0)
        if magic != 0xF30A or depth_guard > 6: raise Malformed('extent')
        for i in range(min(entries, (len(raw) - 12) // 12)):
            o = 12 + 12 * i
            if depth == 0:
                ln = struct.unpack_from('<H', raw, o + 4)[0]
                if ln > 32768: ln -= 32768
                n += ln
            else:
                lo, hi = struct.unpack_from('<IH', raw, o + 4)
                child = lo | (hi << 32)
                n += 1
                if img.first_data_block <= child < img.blocks_count:
                    node(img.blk(child), depth_guard + 1)
    node(I.i_block, 0)
    return n
