"""Directory name hashes used by htree directories (legacy, half-MD4, TEA; signed and unsigned char variants),
implemented from the algorithm descriptions (RFC 1320 round structure for half-MD4, Wheeler/Needham TEA)."""
M = 0xffffffff

def _legacy(name, signed):
    h0, h1 = 0x12a3fe2d, 0x37abe8f9
    for c in name:
        if signed and c > 127:
            c -= 256
        h = (h1 + (h0 ^ ((c * 7152373) & M))) & M
        if h & 0x80000000:
            h = (h - 0x7fffffff) & M
        h1, h0 = h0, h
    return (h0 << 1) & M

def _str2hashbuf(msg, num, signed):
    """pack up to num*4 bytes of msg into num 32-bit words, padded with the length pattern"""
    ln = len(msg)
    pad = ln | (ln << 8)
    pad |= pad << 16
    pad &= M
    val = pad
    if ln > num * 4:
        ln = num * 4
    out = []
    for i in range(ln):
        c = msg[i]
        if signed and c > 127:
            c -= 256
        val = ((c & M) + (val << 8)) & M
        if i % 4 == 3:
            out.append(val); val = pad; num -= 1
    num -= 1
    if num >= 0:
        out.append(val)
    while num - 1 >= 0:
        num -= 1
        out.append(pad)
    return out

def _rol(x, s): return ((x << s) | (x >> (32 - s))) & M

def _half_md4(buf, inp):
    a, b, c, d = buf
    F = lambda x, y, z: (z ^ (x & (y ^ z)))
    G = lambda x, y, z: ((x & y) + ((x ^ y) & z)) & M
    H = lambda x, y, z: x ^ y ^ z
    def R(f, a, b, c, d, k, s): return _rol((a + f(b, c, d) + k) & M, s)
    K1, K2, K3 = 0, 0x5A827999, 0x6ED9EBA1
    a = R(F, a, b, c, d, (inp[0] + K1) & M, 3); d = R(F, d, a, b, c, (inp[1] + K1) & M, 7); c = R(F, c, d, a, b, (inp[2] + K1) & M, 11); b = R(F, b, c, d, a, (inp[3] + K1) & M, 19)
    a = R(F, a, b, c, d, (inp[4] + K1) & M, 3); d = R(F, d, a, b, c, (inp[5] + K1) & M, 7); c = R(F, c, d, a, b, (inp[6] + K1) & M, 11); b = R(F, b, c, d, a, (inp[7] + K1) & M, 19)
    a = R(G, a, b, c, d, (inp[1] + K2) & M, 3); d = R(G, d, a, b, c, (inp[3] + K2) & M, 5); c = R(G, c, d, a, b, (inp[5] + K2) & M, 9); b = R(G, b, c, d, a, (inp[7] + K2) & M, 13)
    a = R(G, a, b, c, d, (inp[0] + K2) & M, 3); d = R(G, d, a, b, c, (inp[2] + K2) & M, 5); c = R(G, c, d, a, b, (inp[4] + K2) & M, 9); b = R(G, b, c, d, a, (inp[6] + K2) & M, 13)
    a = R(H, a, b, c, d, (inp[3] + K3) & M, 3); d = R(H, d, a, b, c, (inp[7] + K3) & M, 9); c = R(H, c, d, a, b, (inp[2] + K3) & M, 11); b = R(H, b, c, d, a, (inp[6] + K3) & M, 15)
    a = R(H, a, b, c, d, (inp[1] + K3) & M, 3); d = R(H, d, a, b, c, (inp[5] + K3) & M, 9); c = R(H, c, d, a, b, (inp[0] + K3) & M, 11); b = R(H, b, c, d, a, (inp[4] + K3) & M, 15)
    return [(buf[0] + a) & M, (buf[1] + b) & M, (buf[2] + c) & M, (buf[3] + d) & M]

def _tea(buf, inp):
    b0, b1 = buf[0], buf[1]
    a, b, c, d = inp[0], inp[1], inp[2], inp[3]
    s = 0
    for _ in range(16):
        s = (s + 0x9E3779B9) & M
        b0 = (b0 + ((((b1 << 4) & M) + a) ^ ((b1 + s) & M) ^ ((b1 >> 5) + b))) & M
        b1 = (b1 + ((((b0 << 4) & M) + c) ^ ((b0 + s) & M) ^ ((b0 >> 5) + d))) & M
    return [(buf[0] + b0) & M, (buf[1] + b1) & M, buf[2], buf[3]]

def dirhash(version, name, seed, unsigned_default=False):
    """version: 0 legacy, 1 half_md4, 2 tea, 3/4/5 = unsigned variants.  returns (hash, minor_hash)"""
    buf = [0x67452301, 0xefcdab89, 0x98badcfe, 0x10325476]
    if seed and any(seed):
        buf = list(seed)
    signed = True
    if version >= 3:
        version -= 3; signed = False
    if version == 0:
        h, minor = _legacy(name, signed), 0
    elif version == 1:
        p = name
        while True:
            inp = _str2hashbuf(p, 8, signed)
            buf = _half_md4(buf, inp)
            p = p[32:]
            if len(p) == 0: break
        h, minor = buf[1], buf[2]
    elif version == 2:
        p = name
        while True:
            inp = _str2hashbuf(p, 4, signed)
            buf = _tea(buf, inp)
            p = p[16:]
            if len(p) == 0: break
        h, minor = buf[0], buf[1]
    else:
        raise ValueError('unsupported hash version')
    h &= ~1 & M
    if h == 0xfffffffe:   # EOF marker value is reserved
        h = 0xfffffffc
    return h, minor
