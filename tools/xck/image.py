"""Independent ext2/3/4 image reader (little-endian on-disk structures, written from the format description)."""
import struct
from .crc import crc32c, crc16

class Malformed(Exception):
    pass

def u8(b, o): return b[o]
def u16(b, o): return struct.unpack_from('<H', b, o)[0]
def u32(b, o): return struct.unpack_from('<I', b, o)[0]
def u64(b, o): return struct.unpack_from('<Q', b, o)[0]

# feature bits
COMPAT_DIR_PREALLOC, COMPAT_IMAGIC, COMPAT_HAS_JOURNAL, COMPAT_EXT_ATTR, COMPAT_RESIZE_INODE, COMPAT_DIR_INDEX = 1, 2, 4, 8, 0x10, 0x20
COMPAT_SPARSE_SUPER2, COMPAT_FAST_COMMIT, COMPAT_STABLE_INODES, COMPAT_ORPHAN_FILE = 0x200, 0x400, 0x800, 0x1000
INCOMPAT_COMPRESSION, INCOMPAT_FILETYPE, INCOMPAT_RECOVER, INCOMPAT_JOURNAL_DEV, INCOMPAT_META_BG = 1, 2, 4, 8, 0x10
INCOMPAT_EXTENTS, INCOMPAT_64BIT, INCOMPAT_MMP, INCOMPAT_FLEX_BG, INCOMPAT_EA_INODE = 0x40, 0x80, 0x100, 0x200, 0x400
INCOMPAT_DIRDATA, INCOMPAT_CSUM_SEED, INCOMPAT_LARGEDIR, INCOMPAT_INLINE_DATA, INCOMPAT_ENCRYPT, INCOMPAT_CASEFOLD = 0x1000, 0x2000, 0x4000, 0x8000, 0x10000, 0x20000
RO_SPARSE_SUPER, RO_LARGE_FILE, RO_BTREE_DIR, RO_HUGE_FILE, RO_GDT_CSUM, RO_DIR_NLINK, RO_EXTRA_ISIZE = 1, 2, 4, 8, 0x10, 0x20, 0x40
RO_QUOTA, RO_BIGALLOC, RO_METADATA_CSUM, RO_READONLY, RO_PROJECT, RO_VERITY, RO_ORPHAN_PRESENT = 0x100, 0x200, 0x400, 0x1000, 0x2000, 0x8000, 0x10000

BG_INODE_UNINIT, BG_BLOCK_UNINIT, BG_INODE_ZEROED = 1, 2, 4
# inode flags
FL_INDEX, FL_HUGE_FILE, FL_EXTENTS, FL_EA_INODE, FL_INLINE_DATA, FL_ENCRYPT, FL_CASEFOLD, FL_VERITY = 0x1000, 0x40000, 0x80000, 0x200000, 0x10000000, 0x800, 0x40000000, 0x100000
S_IFMT, S_IFSOCK, S_IFLNK, S_IFREG, S_IFBLK, S_IFDIR, S_IFCHR, S_IFIFO = 0o170000, 0o140000, 0o120000, 0o100000, 0o060000, 0o040000, 0o020000, 0o010000

SB_FIELDS = [  # name, offset, size  (integers only; arrays listed separately)
    ('s_inodes_count', 0x00, 4), ('s_blocks_count_lo', 0x04, 4), ('s_r_blocks_count_lo', 0x08, 4), ('s_free_blocks_count_lo', 0x0C, 4),
    ('s_free_inodes_count', 0x10, 4), ('s_first_data_block', 0x14, 4), ('s_log_block_size', 0x18, 4), ('s_log_cluster_size', 0x1C, 4),
    ('s_blocks_per_group', 0x20, 4), ('s_clusters_per_group', 0x24, 4), ('s_inodes_per_group', 0x28, 4), ('s_mtime', 0x2C, 4), ('s_wtime', 0x30, 4),
    ('s_mnt_count', 0x34, 2), ('s_max_mnt_count', 0x36, 2), ('s_magic', 0x38, 2), ('s_state', 0x3A, 2), ('s_errors', 0x3C, 2), ('s_minor_rev_level', 0x3E, 2),
    ('s_lastcheck', 0x40, 4), ('s_checkinterval', 0x44, 4), ('s_creator_os', 0x48, 4), ('s_rev_level', 0x4C, 4), ('s_def_resuid', 0x50, 2), ('s_def_resgid', 0x52, 2),
    ('s_first_ino', 0x54, 4), ('s_inode_size', 0x58, 2), ('s_block_group_nr', 0x5A, 2), ('s_feature_compat', 0x5C, 4), ('s_feature_incompat', 0x60, 4),
    ('s_feature_ro_compat', 0x64, 4), ('s_algorithm_usage_bitmap', 0xC8, 4), ('s_prealloc_blocks', 0xCC, 1), ('s_prealloc_dir_blocks', 0xCD, 1),
    ('s_reserved_gdt_blocks', 0xCE, 2), ('s_journal_inum', 0xE0, 4), ('s_journal_dev', 0xE4, 4), ('s_last_orphan', 0xE8, 4),
    ('s_def_hash_version', 0xFC, 1), ('s_jnl_backup_type', 0xFD, 1), ('s_desc_size', 0xFE, 2), ('s_default_mount_opts', 0x100, 4), ('s_first_meta_bg', 0x104, 4),
    ('s_mkfs_time', 0x108, 4), ('s_blocks_count_hi', 0x150, 4), ('s_r_blocks_count_hi', 0x154, 4), ('s_free_blocks_count_hi', 0x158, 4),
    ('s_min_extra_isize', 0x15C, 2), ('s_want_extra_isize', 0x15E, 2), ('s_flags', 0x160, 4), ('s_raid_stride', 0x164, 2), ('s_mmp_update_interval', 0x166, 2),
    ('s_mmp_block', 0x168, 8), ('s_raid_stripe_width', 0x170, 4), ('s_log_groups_per_flex', 0x174, 1), ('s_checksum_type', 0x175, 1),
    ('s_encryption_level', 0x176, 1), ('s_kbytes_written', 0x178, 8), ('s_snapshot_inum', 0x180, 4), ('s_snapshot_id', 0x184, 4),
    ('s_snapshot_r_blocks_count', 0x188, 8), ('s_snapshot_list', 0x190, 4), ('s_error_count', 0x194, 4), ('s_first_error_time', 0x198, 4),
    ('s_first_error_ino', 0x19C, 4), ('s_first_error_block', 0x1A0, 8), ('s_first_error_line', 0x1C8, 4), ('s_last_error_time', 0x1CC, 4),
    ('s_last_error_ino', 0x1D0, 4), ('s_last_error_line', 0x1D4, 4), ('s_last_error_block', 0x1D8, 8), ('s_usr_quota_inum', 0x240, 4),
    ('s_grp_quota_inum', 0x244, 4), ('s_overhead_clusters', 0x248, 4), ('s_backup_bgs0', 0x24C, 4), ('s_backup_bgs1', 0x250, 4),
    ('s_lpf_ino', 0x268, 4), ('s_prj_quota_inum', 0x26C, 4), ('s_checksum_seed', 0x270, 4), ('s_wtime_hi', 0x274, 1), ('s_mtime_hi', 0x275, 1),
    ('s_mkfs_time_hi', 0x276, 1), ('s_lastcheck_hi', 0x277, 1), ('s_first_error_time_hi', 0x278, 1), ('s_last_error_time_hi', 0x279, 1),
    ('s_first_error_errcode', 0x27A, 1), ('s_last_error_errcode', 0x27B, 1), ('s_encoding', 0x27C, 2), ('s_encoding_flags', 0x27E, 2),
    ('s_orphan_file_inum', 0x280, 4), ('s_checksum', 0x3FC, 4)]
GD_FIELDS = [('bg_block_bitmap_lo', 0, 4), ('bg_inode_bitmap_lo', 4, 4), ('bg_inode_table_lo', 8, 4), ('bg_free_blocks_count_lo', 12, 2),
             ('bg_free_inodes_count_lo', 14, 2), ('bg_used_dirs_count_lo', 16, 2), ('bg_flags', 18, 2), ('bg_exclude_bitmap_lo', 20, 4),
             ('bg_block_bitmap_csum_lo', 24, 2), ('bg_inode_bitmap_csum_lo', 26, 2), ('bg_itable_unused_lo', 28, 2), ('bg_checksum', 30, 2)]
GD_FIELDS_HI = [('bg_block_bitmap_hi', 32, 4), ('bg_inode_bitmap_hi', 36, 4), ('bg_inode_table_hi', 40, 4), ('bg_free_blocks_count_hi', 44, 2),
                ('bg_free_inodes_count_hi', 46, 2), ('bg_used_dirs_count_hi', 48, 2), ('bg_itable_unused_hi', 50, 2), ('bg_exclude_bitmap_hi', 52, 4),
                ('bg_block_bitmap_csum_hi', 56, 2), ('bg_inode_bitmap_csum_hi', 58, 2)]
INODE_FIELDS = [('i_mode', 0, 2), ('i_uid', 2, 2), ('i_size_lo', 4, 4), ('i_atime', 8, 4), ('i_ctime', 12, 4), ('i_mtime', 16, 4), ('i_dtime', 20, 4),
                ('i_gid', 24, 2), ('i_links_count', 26, 2), ('i_blocks_lo', 28, 4), ('i_flags', 32, 4), ('i_osd1', 36, 4), ('i_generation', 100, 4),
                ('i_file_acl_lo', 104, 4), ('i_size_high', 108, 4), ('i_obso_faddr', 112, 4), ('i_blocks_high', 116, 2), ('i_file_acl_high', 118, 2),
                ('i_uid_high', 120, 2), ('i_gid_high', 122, 2), ('i_checksum_lo', 124, 2), ('i_reserved', 126, 2)]
INODE_FIELDS_EXTRA = [('i_extra_isize', 128, 2), ('i_checksum_hi', 130, 2), ('i_ctime_extra', 132, 4), ('i_mtime_extra', 136, 4), ('i_atime_extra', 140, 4),
                      ('i_crtime', 144, 4), ('i_crtime_extra', 148, 4), ('i_version_hi', 152, 4), ('i_projid', 156, 4)]

def _rd(b, off, size):
    return {1: u8, 2: u16, 4: u32, 8: u64}[size](b, off)

class Rec(object):
    """a decoded fixed-layout record; fields become attributes"""
    def __init__(self, raw, fields, base=0):
        self.raw = raw
        for name, off, size in fields:
            if off + size <= len(raw):
                setattr(self, name, _rd(raw, off, size))
            else:
                setattr(self, name, 0)

class Inode(Rec):
    def __init__(self, ino, raw, isize):
        Rec.__init__(self, raw, INODE_FIELDS)
        self.ino = ino
        self.i_block = raw[40:100]
        if isize > 128:
            Rec.__init__(self, raw, INODE_FIELDS + INODE_FIELDS_EXTRA)
            self.i_block = raw[40:100]
        else:
            for name, off, size in INODE_FIELDS_EXTRA:
                setattr(self, name, 0)
        self.size = self.i_size_lo | (self.i_size_high << 32)
        self.uid = self.i_uid | (self.i_uid_high << 16)
        self.gid = self.i_gid | (self.i_gid_high << 16)
        self.file_acl = self.i_file_acl_lo | (self.i_file_acl_high << 32)
        self.fmt = self.i_mode & S_IFMT
    def is_dir(self): return self.fmt == S_IFDIR
    def is_reg(self): return self.fmt == S_IFREG
    def is_lnk(self): return self.fmt == S_IFLNK

class Image(object):
    def __init__(self, data, sb_off=1024):
        self.d = data if isinstance(data, (bytes, bytearray)) else bytes(data)
        if len(self.d) < sb_off + 1024:
            raise Malformed('image too small')
        self.sbraw = self.d[sb_off:sb_off + 1024]
        sb = self.sb = Rec(self.sbraw, SB_FIELDS)
        if sb.s_magic != 0xEF53:
            raise Malformed('bad magic')
        if sb.s_log_block_size > 6:
            raise Malformed('bad block size')
        self.bs = 1024 << sb.s_log_block_size
        self.compat, self.incompat, self.ro = sb.s_feature_compat, sb.s_feature_incompat, sb.s_feature_ro_compat
        self.is64 = bool(self.incompat & INCOMPAT_64BIT)
        self.blocks_count = sb.s_blocks_count_lo | ((sb.s_blocks_count_hi << 32) if self.is64 else 0)
        self.bigalloc = bool(self.ro & RO_BIGALLOC)
        self.cluster_bits = (sb.s_log_cluster_size - sb.s_log_block_size) if self.bigalloc else 0
        if self.cluster_bits < 0 or self.cluster_bits > 16:
            raise Malformed('bad cluster size')
        self.cratio = 1 << self.cluster_bits
        self.bpg = sb.s_blocks_per_group
        self.cpg = sb.s_clusters_per_group
        self.ipg = sb.s_inodes_per_group
        self.first_data_block = sb.s_first_data_block
        if self.bpg == 0 or self.ipg == 0 or self.cpg == 0:
            raise Malformed('zero per-group counts')
        if self.blocks_count <= self.first_data_block:
            raise Malformed('blocks_count')
        self.groups = (self.blocks_count - self.first_data_block + self.bpg - 1) // self.bpg
        self.rev = sb.s_rev_level
        self.inode_size = sb.s_inode_size if self.rev >= 1 else 128
        self.first_ino = sb.s_first_ino if self.rev >= 1 else 11
        if self.inode_size < 128 or self.inode_size > self.bs or (self.inode_size & (self.inode_size - 1)):
            raise Malformed('bad inode size')
        self.inodes_count = sb.s_inodes_count
        if self.inodes_count != self.ipg * self.groups:
            raise Malformed('inodes_count != ipg*groups')
        self.desc_size = sb.s_desc_size if self.is64 else 32
        if self.is64 and (self.desc_size < 64 or self.desc_size > 1024 or (self.desc_size & (self.desc_size - 1))):
            raise Malformed('bad desc size')
        self.uuid = self.sbraw[0x68:0x78]
        self.has_csum = bool(self.ro & RO_METADATA_CSUM)
        self.has_gdt_csum = bool(self.ro & RO_GDT_CSUM)
        if self.incompat & INCOMPAT_CSUM_SEED:
            self.csum_seed = sb.s_checksum_seed
        else:
            self.csum_seed = crc32c(0xffffffff, self.uuid)
        self.hash_seed = struct.unpack_from('<4I', self.sbraw, 0xEC)
        self.itb_per_group = (self.ipg * self.inode_size + self.bs - 1) // self.bs
        self.dpb = self.bs // self.desc_size
        self.gdt_blocks = (self.groups + self.dpb - 1) // self.dpb
        self.gd = [self._read_gd(g) for g in range(self.groups)]

    # ---- basic accessors
    def blk(self, n):
        if n < 0 or n >= self.blocks_count or (n + 1) * self.bs > len(self.d):
            raise Malformed('block %d out of range' % n)
        return self.d[n * self.bs:(n + 1) * self.bs]

    def has(self, compat=0, incompat=0, ro=0):
        return bool((self.compat & compat) or (self.incompat & incompat) or (self.ro & ro))

    def group_first_block(self, g):
        return self.first_data_block + g * self.bpg

    def sb_block(self, g):
        """block holding the superblock copy of group g (the primary always lives at byte 1024)"""
        adj = 1 if (g == 0 and self.bs == 1024 and self.first_data_block == 0) else 0
        return self.group_first_block(g) + adj

    def group_nblocks(self, g):
        if g == self.groups - 1:
            return self.blocks_count - self.group_first_block(g)
        return self.bpg

    # ---- descriptors
    def gd_location(self, g):
        """(block, offset) of the primary descriptor of group g"""
        has_super0 = 1
        if self.incompat & INCOMPAT_META_BG and g // self.dpb >= self.sb.s_first_meta_bg:
            mg = g // self.dpb
            first = mg * self.dpb
            blk = (self.sb_block(first) + 1) if self.bg_has_super(first) else self.group_first_block(first)
            return blk, (g % self.dpb) * self.desc_size
        blk = self.sb_block(0) + 1 + g // self.dpb
        return blk, (g % self.dpb) * self.desc_size

    def _read_gd(self, g):
        blk, off = self.gd_location(g)
        raw = self.blk(blk)[off:off + self.desc_size]
        r = Rec(raw, GD_FIELDS + (GD_FIELDS_HI if self.desc_size >= 64 else []))
        hi = self.desc_size >= 64
        r.block_bitmap = r.bg_block_bitmap_lo | ((r.bg_block_bitmap_hi << 32) if hi else 0)
        r.inode_bitmap = r.bg_inode_bitmap_lo | ((r.bg_inode_bitmap_hi << 32) if hi else 0)
        r.inode_table = r.bg_inode_table_lo | ((r.bg_inode_table_hi << 32) if hi else 0)
        r.free_blocks = r.bg_free_blocks_count_lo | ((r.bg_free_blocks_count_hi << 16) if hi else 0)
        r.free_inodes = r.bg_free_inodes_count_lo | ((r.bg_free_inodes_count_hi << 16) if hi else 0)
        r.used_dirs = r.bg_used_dirs_count_lo | ((r.bg_used_dirs_count_hi << 16) if hi else 0)
        r.itable_unused = r.bg_itable_unused_lo | ((r.bg_itable_unused_hi << 16) if hi else 0)
        r.loc = (blk, off)
        return r

    @staticmethod
    def _is_power(n, b):
        while n > 1:
            if n % b: return False
            n //= b
        return n == 1

    def bg_has_super(self, g):
        if g == 0:
            return True
        if self.compat & COMPAT_SPARSE_SUPER2:
            return g in (self.sb.s_backup_bgs0, self.sb.s_backup_bgs1) and g != 0
        if not (self.ro & RO_SPARSE_SUPER):
            return True
        if g == 1:
            return True
        return self._is_power(g, 3) or self._is_power(g, 5) or self._is_power(g, 7)

    def backup_groups(self):
        return [g for g in range(1, self.groups) if self.bg_has_super(g)]

    def gd_checksum(self, g):
        blk, off = self.gd_location(g)
        raw = bytearray(self.blk(blk)[off:off + self.desc_size])
        if self.has_csum:
            raw[30:32] = b'\0\0'
            c = crc32c(self.csum_seed, struct.pack('<I', g))
            c = crc32c(c, bytes(raw))
            return c & 0xffff
        if self.has_gdt_csum:
            c = crc16(0xffff, self.uuid)
            c = crc16(c, struct.pack('<I', g))
            c = crc16(c, bytes(raw[:30]))
            if self.is64 and self.desc_size > 32:
                c = crc16(c, bytes(raw[32:self.desc_size]))
            return c
        return None

    def sb_checksum(self, raw=None):
        raw = self.sbraw if raw is None else raw
        return crc32c(0xffffffff, raw[:0x3FC])

    # ---- fixed metadata of a group: (superblock copy?, number of gdt blocks (incl reserved))
    def group_overhead_blocks(self, g):
        """set of block numbers in group g taken by superblock/descriptor copies and reserved GDT blocks"""
        out = []
        first = self.sb_block(g)
        has_sb = self.bg_has_super(g)
        if has_sb:
            out.append(first)
            if first != self.group_first_block(g):
                out.append(self.group_first_block(g))
        if self.incompat & INCOMPAT_META_BG:
            fm = self.sb.s_first_meta_bg
            mg = g // self.dpb
            if mg < fm:
                # old-style part of the table
                if has_sb:
                    n = min(fm, self.gdt_blocks)
                    out += [first + 1 + i for i in range(n)]
            else:
                idx = g % self.dpb
                if idx == 0 or idx == 1 or idx == self.dpb - 1:
                    out.append((first + 1) if has_sb else self.group_first_block(g))
        else:
            if has_sb:
                n = self.gdt_blocks + (self.sb.s_reserved_gdt_blocks if (self.compat & COMPAT_RESIZE_INODE) or True else 0)
                out += [first + 1 + i for i in range(n)]
        if g == 0 and first != 0 and self.first_data_block == 0:
            pass
        return [b for b in out if b < self.blocks_count]

    # ---- bitmaps
    def block_bitmap(self, g):
        """returns bytes of length cpg/8 (zero-filled if BLOCK_UNINIT under a csum feature)"""
        gd = self.gd[g]
        n = (self.cpg + 7) // 8
        if (self.has_csum or self.has_gdt_csum) and (gd.bg_flags & BG_BLOCK_UNINIT):
            return None
        return self.blk(gd.block_bitmap)[:n]

    def inode_bitmap(self, g):
        gd = self.gd[g]
        n = (self.ipg + 7) // 8
        if (self.has_csum or self.has_gdt_csum) and (gd.bg_flags & BG_INODE_UNINIT):
            return None
        return self.blk(gd.inode_bitmap)[:n]

    # ---- inodes
    def inode_loc(self, ino):
        if ino < 1 or ino > self.inodes_count:
            raise Malformed('inode %d out of range' % ino)
        g, idx = divmod(ino - 1, self.ipg)
        off = self.gd[g].inode_table * self.bs + idx * self.inode_size
        if self.gd[g].inode_table + self.itb_per_group > self.blocks_count or off + self.inode_size > len(self.d):
            raise Malformed('inode table of group %d out of range' % g)
        return off

    def inode_raw(self, ino):
        off = self.inode_loc(ino)
        return self.d[off:off + self.inode_size]

    def inode(self, ino):
        I = Inode(ino, self.inode_raw(ino), self.inode_size)
        if self.sb.s_creator_os == 1 and not self.is64:
            I.file_acl = I.i_file_acl_lo          # Hurd: the word behind l_i_blocks_high is h_i_mode_high, not the upper half of i_file_acl
        return I

    def inode_csum_seed(self, ino, gen):
        c = crc32c(self.csum_seed, struct.pack('<I', ino))
        return crc32c(c, struct.pack('<I', gen))

    def inode_checksum(self, ino, raw=None):
        """returns (computed, stored) for metadata_csum filesystems"""
        raw = bytearray(self.inode_raw(ino) if raw is None else raw)
        gen = u32(raw, 100)
        stored = u16(raw, 124)
        has_hi = self.inode_size > 128 and u16(raw, 128) >= 4
        raw[124:126] = b'\0\0'
        if has_hi:
            stored |= u16(raw, 130) << 16
            raw[130:132] = b'\0\0'
        c = crc32c(self.inode_csum_seed(ino, gen), bytes(raw))
        if not has_hi:
            c &= 0xffff
        return c, stored

    def i_blocks_sectors(self, ino_obj):
        """i_blocks in 512-byte units"""
        # l_i_blocks_high only means something with the huge_file feature (as in the kernel's ext4_inode_blocks() and libext2fs's ext2fs_inode_i_blocks());
        # without it the field is reserved and e2fsck only complains about it for inodes that a directory entry names
        n = ino_obj.i_blocks_lo | ((ino_obj.i_blocks_high << 32) if (self.ro & RO_HUGE_FILE) else 0)
        if (self.ro & RO_HUGE_FILE) and (ino_obj.i_flags & FL_HUGE_FILE):
            n *= self.bs // 512
        return n

    # ---- block mapping
    def extent_header(self, b, off=0):
        magic, entries, mx, depth, gen = struct.unpack_from('<HHHHI', b, off)
        return magic, entries, mx, depth

    def walk_extents(self, ino_obj, cb_node=None):
        """yield (lblk, len, pblk, uninit) leaves; raise Malformed on structural damage.
        cb_node(level_block or None for the root, raw bytes, depth) is called for every node."""
        out = []
        meta = []
        def node(raw, cap_bytes, depth_expect, lo, hi, blkno):
            magic, entries, mx, depth = self.extent_header(raw)
            if magic != 0xF30A: raise Malformed('extent magic')
            if depth_expect is not None and depth != depth_expect: raise Malformed('extent depth')
            if depth >= 8: raise Malformed('extent depth too large')
            if mx == 0 or 12 + mx * 12 > cap_bytes or entries > mx: raise Malformed('extent entries/max')
            if cb_node: cb_node(blkno, raw, depth)
            prev_end = lo
            for i in range(entries):
                o = 12 + 12 * i
                if depth == 0:
                    lblk, ln, hi16, lo32 = struct.unpack_from('<IHHI', raw, o)
                    unin = ln > 32768
                    if unin: ln -= 32768
                    pblk = lo32 | (hi16 << 32)
                    if ln == 0: raise Malformed('zero-length extent')
                    if lblk < prev_end: raise Malformed('extents out of order/overlap')
                    if hi is not None and lblk + ln > hi: raise Malformed('extent beyond index range')
                    if lblk + ln > (1 << 32): raise Malformed('extent lblk overflow')
                    if pblk + ln > self.blocks_count or pblk < self.first_data_block or pblk == 0: raise Malformed('extent pblk out of range')
                    out.append((lblk, ln, pblk, unin))
                    prev_end = lblk + ln
                else:
                    lblk, leaf_lo, leaf_hi, _ = struct.unpack_from('<IIHH', raw, o)
                    child = leaf_lo | (leaf_hi << 32)
                    if lblk < prev_end and i > 0: raise Malformed('index out of order')
                    if i == 0 and lo is not None and lblk < lo: raise Malformed('index below parent range')
                    if child >= self.blocks_count or child < self.first_data_block or child == 0: raise Malformed('index block out of range')
                    nxt = None
                    if i + 1 < entries:
                        nxt = u32(raw, o + 12)
                    elif hi is not None:
                        nxt = hi
                    meta.append(child)
                    if len(meta) > 100000: raise Malformed('extent tree too large')
                    craw = self.blk(child)
                    node(craw, self.bs, depth - 1, lblk, nxt, child)
                    prev_end = lblk + 1
        node(ino_obj.i_block, 60, None, 0, None, None)
        return out, meta

    def walk_blockmap(self, ino_obj):
        """old-style mapping: returns (dict lblk->pblk, [indirect blocks])"""
        m = {}
        meta = []
        ib = struct.unpack('<15I', ino_obj.i_block)
        apb = self.bs // 4
        def chk(b):
            if b >= self.blocks_count or b < self.first_data_block: raise Malformed('block pointer out of range')
        for i in range(12):
            if ib[i]:
                chk(ib[i]); m[i] = ib[i]
        def ind(b, level, base):
            chk(b); meta.append(b)
            if len(meta) > 200000: raise Malformed('too many indirect blocks')
            raw = self.blk(b)
            ptrs = struct.unpack('<%dI' % apb, raw)
            span = apb ** (level - 1)
            for i, p in enumerate(ptrs):
                if not p: continue
                if level == 1:
                    chk(p); m[base + i] = p
                else:
                    ind(p, level - 1, base + i * span)
        if ib[12]: ind(ib[12], 1, 12)
        if ib[13]: ind(ib[13], 2, 12 + apb)
        if ib[14]: ind(ib[14], 3, 12 + apb + apb * apb)
        return m, meta

    def file_blocks(self, ino_obj):
        """-> (list of (lblk, pblk, uninit) per block sorted by lblk, list of metadata blocks)"""
        if ino_obj.i_flags & FL_INLINE_DATA:
            return [], []
        if ino_obj.i_flags & FL_EXTENTS:
            ext, meta = self.walk_extents(ino_obj)
            blocks = []
            for lblk, ln, pblk, un in ext:
                if ln > 1 << 20 and False: pass
                for i in range(ln):
                    blocks.append((lblk + i, pblk + i, un))
            return blocks, meta
        m, meta = self.walk_blockmap(ino_obj)
        return [(l, m[l], False) for l in sorted(m)], meta

    def fast_symlink(self, ino_obj):
        if not ino_obj.is_lnk(): return False
        if ino_obj.i_flags & FL_INLINE_DATA: return False
        if ino_obj.i_flags & FL_EXTENTS:
            # an extent-flagged symlink is "fast" only if it has no extents at all and size<60 (e2fsprogs never creates these)
            pass
        ea_blocks = (self.bs // 512) * (self.cratio) if ino_obj.file_acl else 0
        nb = self.i_blocks_sectors(ino_obj)
        return nb - ea_blocks == 0 and ino_obj.size < 60

    # ---- xattrs
    def parse_xattr_entries(self, buf, start, value_base, end, in_inode):
        """returns list of dict(index,name,value_offs,value_inum,value_size,hash,entry_off) ; raises on overrun"""
        out = []
        o = start
        while True:
            if o + 4 > end: raise Malformed('xattr entries overrun')
            if u32(buf, o) == 0: break
            if o + 16 > end: raise Malformed('xattr entry overrun')
            nl, idx, voff, vinum, vsize, h = struct.unpack_from('<BBHIII', buf, o)
            if o + 16 + nl > end: raise Malformed('xattr name overrun')
            name = bytes(buf[o + 16:o + 16 + nl])
            out.append(dict(index=idx, name=name, value_offs=voff, value_inum=vinum, value_size=vsize, hash=h, entry_off=o))
            o += (16 + nl + 3) & ~3
            if len(out) > 4096: raise Malformed('too many xattrs')
        out_end = o + 4
        for e in out:
            if e['value_inum'] == 0 and e['value_size']:
                vs = value_base + e['value_offs']
                if vs < out_end - (0 if not in_inode else 0) and False: pass
                if vs + e['value_size'] > end or vs < start: raise Malformed('xattr value out of bounds')
                if vs < out_end and vs + e['value_size'] > start and vs < out_end - 4 + 4 and vs < o:
                    raise Malformed('xattr value overlaps entries')
        return out, out_end

    def inode_xattrs(self, ino_obj):
        """-> list of (index, name, value bytes, where) from in-inode area, xattr block (and ea_inodes)"""
        res = []
        raw = ino_obj.raw
        if self.inode_size > 128:
            extra = ino_obj.i_extra_isize
            start = 128 + extra
            if extra and (extra < 4 and False):
                pass
            if start + 4 <= self.inode_size and extra <= self.inode_size - 128 and u32(raw, start) == 0xEA020000:
                ents, _ = self.parse_xattr_entries(raw, start + 4, start + 4, self.inode_size, True)
                for e in ents:
                    res.append((e, self._xattr_value(raw, start + 4, e), 'inode'))
        if ino_obj.file_acl:
            b = self.blk(ino_obj.file_acl)
            if u32(b, 0) != 0xEA020000: raise Malformed('xattr block magic')
            ents, _ = self.parse_xattr_entries(b, 32, 0, self.bs, False)
            for e in ents:
                res.append((e, self._xattr_value(b, 0, e), 'block'))
        return res

    def _xattr_value(self, buf, base, e):
        if e['value_inum']:
            vi = self.inode(e['value_inum'])
            return self.read_file(vi)[:e['value_size']]
        return bytes(buf[base + e['value_offs']:base + e['value_offs'] + e['value_size']])

    # ---- file content
    def read_file(self, ino_obj, limit=1 << 26):
        size = ino_obj.size
        if size > limit: raise Malformed('file too large for checker scope')
        if ino_obj.i_flags & FL_INLINE_DATA:
            data = bytes(ino_obj.i_block)
            for e, v, w in self.inode_xattrs(ino_obj):
                if e['index'] == 7 and e['name'] == b'data':
                    data += v
            return data[:size]
        if ino_obj.is_lnk() and self.fast_symlink(ino_obj):
            return bytes(ino_obj.i_block)[:size]
        blocks, _ = self.file_blocks(ino_obj)
        out = bytearray(size)
        for l, p, un in blocks:
            o = l * self.bs
            if o >= size or un: continue
            n = min(self.bs, size - o)
            out[o:o + n] = self.blk(p)[:n]
        return bytes(out)

    def hole_map(self, ino_obj):
        """sorted list of logical blocks that are mapped (initialised or not) below i_size"""
        if ino_obj.i_flags & FL_INLINE_DATA: return []
        if ino_obj.is_lnk() and self.fast_symlink(ino_obj): return []
        blocks, _ = self.file_blocks(ino_obj)
        return [l for l, p, un in blocks]

    # ---- directories
    def dirent_iter(self, raw, start=0, end=None, allow_tail=True):
        """yield (off, inode, rec_len, name_len, file_type, name); raises Malformed on a broken chain"""
        end = len(raw) if end is None else end
        o = start
        while o < end:
            if o + 8 > end: raise Malformed('dirent header overrun')
            ino, rl, nl, ft = struct.unpack_from('<IHBB', raw, o)
            if rl == 0 and (end - start) >= 65536: rl = 65536
            elif (end - start) >= 65536 and (rl & 3): rl = (rl & 0xfffc) | ((rl & 3) << 16)
            if rl < 8 or rl % 4 or o + rl > end: raise Malformed('bad rec_len %d at %d' % (rl, o))
            if 8 + nl > rl: raise Malformed('name_len beyond rec_len')
            yield o, ino, rl, nl, ft, bytes(raw[o + 8:o + 8 + nl])
            o += rl

    def dir_block_csum(self, ino_obj, raw):
        seed = self.inode_csum_seed(ino_obj.ino, ino_obj.i_generation)
        return crc32c(seed, raw[:self.bs - 12])

    def read_dir(self, ino_obj):
        """-> list of (name, inode, file_type, lblk) for live entries; structural problems raise Malformed"""
        ents = []
        if ino_obj.i_flags & FL_INLINE_DATA:
            data = self.read_file(ino_obj)
            if len(data) < 4: raise Malformed('inline dir too small')
            parent = u32(data, 0)
            ents.append((b'.', ino_obj.ino, 2, 0)); ents.append((b'..', parent, 2, 0))
            # i_block part: 4..60 ; ea part after 60
            parts = [(4, min(60, len(data)))]
            if len(data) > 60: parts.append((60, len(data)))
            for s, e in parts:
                for o, ino, rl, nl, ft, name in self.dirent_iter(data, s, e):
                    if ino: ents.append((name, ino, ft, 0))
            return ents
        blocks, _ = self.file_blocks(ino_obj)
        has_tail = self.has_csum
        for l, p, un in blocks:
            if l * self.bs >= ino_obj.size: continue
            raw = self.blk(p)
            for o, ino, rl, nl, ft, name in self.dirent_iter(raw):
                if has_tail and o == self.bs - 12 and ino == 0 and rl == 12 and nl == 0 and ft == 0xDE:
                    continue
                if ino: ents.append((name, ino, ft, l))
        return ents
