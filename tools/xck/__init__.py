"""xck -- an independent reader / checker / canonical lister for ext2/3/4 images, written from the on-disk
format description.  It shares no code, header or table with e2fsprogs."""
