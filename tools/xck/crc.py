"""CRC primitives: C helper (engines/xck_crc.c, built on first use) with a pure-Python fallback."""
import os, ctypes, subprocess
_here = os.path.dirname(os.path.abspath(__file__))
_verif = os.path.dirname(os.path.dirname(_here))
_so = os.path.join(os.environ.get('VERIF_BUILD_ROOT') or os.path.join(_verif, 'build'), 'bin', 'xck_crc.so')
_lib = None
def _load():
    global _lib
    if _lib is not None:
        return _lib
    src = os.path.join(_verif, 'engines', 'xck_crc.c')
    try:
        if not os.path.exists(_so) or os.path.getmtime(_so) < os.path.getmtime(src):
            os.makedirs(os.path.dirname(_so), exist_ok=True)
            tmp = _so + '.%d' % os.getpid()
            subprocess.check_call(['gcc', '-O2', '-shared', '-fPIC', '-o', tmp, src])
            os.replace(tmp, _so)
        L = ctypes.CDLL(_so)
        for n, rt in (('xck_crc32c', ctypes.c_uint32), ('xck_crc32be', ctypes.c_uint32), ('xck_crc16', ctypes.c_uint16),
                      ('xck_crc32c_bitwise', ctypes.c_uint32), ('xck_crc32be_bitwise', ctypes.c_uint32), ('xck_crc16_bitwise', ctypes.c_uint16)):
            f = getattr(L, n); f.restype = rt; f.argtypes = [rt, ctypes.c_char_p, ctypes.c_size_t]
        _lib = L
    except Exception:
        _lib = False
    return _lib

def _py(crc, data, poly, width, reflected):
    if reflected:
        for b in data:
            crc ^= b
            for _ in range(8):
                crc = (crc >> 1) ^ (poly if crc & 1 else 0)
    else:
        top = 1 << (width - 1); mask = (1 << width) - 1
        for b in data:
            crc ^= b << (width - 8)
            for _ in range(8):
                crc = ((crc << 1) ^ (poly if crc & top else 0)) & mask
    return crc

def crc32c(crc, data):
    L = _load(); data = bytes(data)
    return L.xck_crc32c(crc & 0xffffffff, data, len(data)) if L else _py(crc & 0xffffffff, data, 0x82F63B78, 32, True)
def crc32be(crc, data):
    L = _load(); data = bytes(data)
    return L.xck_crc32be(crc & 0xffffffff, data, len(data)) if L else _py(crc & 0xffffffff, data, 0x04C11DB7, 32, False)
def crc16(crc, data):
    L = _load(); data = bytes(data)
    return L.xck_crc16(crc & 0xffff, data, len(data)) if L else _py(crc & 0xffff, data, 0xA001, 16, True)
def selftest():
    """table version == bitwise version == pure python, plus published check values"""
    L = _load()
    msg = b'123456789'
    assert crc32c(0xffffffff, msg) ^ 0xffffffff == 0xE3069283, 'crc32c check value'
    assert crc16(0, msg) == 0xBB3D, 'crc16/ARC check value'
    assert crc32be(0xffffffff, msg) ^ 0xffffffff == 0xFC891918, 'crc32/BZIP2 check value'
    import random
    r = random.Random(1)
    for n in (0, 1, 2, 3, 7, 8, 9, 31, 64, 255, 1024):
        d = bytes(r.randrange(256) for _ in range(n))
        for seed in (0, 0xffffffff, 0x12345678):
            assert crc32c(seed, d) == _py(seed, d, 0x82F63B78, 32, True)
            assert crc32be(seed, d) == _py(seed, d, 0x04C11DB7, 32, False)
            assert crc16(seed & 0xffff, d) == _py(seed & 0xffff, d, 0xA001, 16, True)
            if L:
                assert L.xck_crc32c_bitwise(seed, d, n) == crc32c(seed, d)
    return True
