"""xck.check -- independent consistency check of an ext2/3/4 image.  Returns a list of (group, code, detail):
 R block references, A allocation summaries, L links/reachability, S structure, K checksums.
Only invariants that `e2fsck -fn` also treats as errors are asserted (see DESIGN.md C02 for what is left out on purpose)."""
import struct
from .image import *
from .crc import crc32c
from .dirhash import dirhash

class Checker(object):
    def __init__(self, img, want=('R', 'A', 'L', 'S', 'K')):
        self.img = img
        self.v = []
        self.want = set(want)
    def bad(self, grp, code, detail=''):
        if grp in self.want:
            self.v.append((grp, code, detail))

    # ------------------------------------------------------------------
    def run(self):
        img = self.img
        self.owner = {}           # cluster -> owner tag
        self.fixed = set()        # blocks that are filesystem metadata (sb/gdt/bitmaps/tables)
        self.check_super()
        self.check_groups()
        self.dirs = {}            # ino -> list of (name, child, ft)
        self.refs = {}            # child ino -> number of dirents
        self.subdirs = {}         # dir ino -> number of subdirectory entries
        self.parent = {}
        self.inuse = {}           # ino -> Inode
        self.xblocks = {}         # xattr block -> refs seen
        self.ea_inode_refs = {}
        self.specials = set()
        # bad-blocks inode: a non-empty list puts the image outside xck's scope (bad blocks may legally sit inside
        # inode tables and change what "in use" means); nothing is asserted then
        try:
            b1 = img.inode(1)
            if any(b1.i_block) or b1.i_blocks_lo:
                self.v = []
                return self.v
        except Malformed:
            pass
        self.shared_ok = bool(img.ro & 0x4000)      # RO_COMPAT_SHARED_BLOCKS: multiply-claimed blocks are intentional
        self.scan_inodes()
        self.check_links()
        self.check_alloc()
        return self.v

    def check_super(self):
        img = self.img; sb = img.sb
        if img.has_csum:
            if sb.s_checksum != img.sb_checksum():
                self.bad('K', 'sb_csum')
        if img.has_csum and img.has_gdt_csum:
            self.bad('S', 'sb_both_csum_features')
        if sb.s_first_data_block != (1 if img.bs == 1024 and img.cluster_bits == 0 else 0):
            self.bad('S', 'sb_first_data_block')
        if img.cpg > 8 * img.bs or img.ipg > 8 * img.bs:
            self.bad('S', 'sb_per_group_limits')
        if img.bpg != img.cpg * img.cratio:
            self.bad('S', 'sb_bpg_cpg')
        if img.rev >= 1 and (sb.s_first_ino < 11 or sb.s_first_ino > img.inodes_count):
            self.bad('S', 'sb_first_ino')
        if sb.s_r_blocks_count_lo > img.blocks_count:
            self.bad('S', 'sb_r_blocks')

    def mark_fixed(self, b, what):
        img = self.img
        if b < img.first_data_block and not (img.first_data_block == 0) or b >= img.blocks_count:
            self.bad('R', 'fixed_out_of_range', '%s %d' % (what, b)); return
        if b in self.fixed:
            self.bad('R', 'fixed_overlap', '%s %d' % (what, b))
        self.fixed.add(b)

    def check_groups(self):
        img = self.img
        for g in range(img.groups):
            gd = img.gd[g]
            if img.has_csum or img.has_gdt_csum:
                if gd.bg_checksum != img.gd_checksum(g):
                    self.bad('K', 'gd_csum', 'group %d' % g)
            for b in img.group_overhead_blocks(g):
                self.mark_fixed(b, 'overhead g%d' % g)
        for g in range(img.groups):
            gd = img.gd[g]
            lo, hi = img.group_first_block(g), img.group_first_block(g) + img.group_nblocks(g)
            flex = bool(img.incompat & INCOMPAT_FLEX_BG)
            for what, b, n in (('bbitmap', gd.block_bitmap, 1), ('ibitmap', gd.inode_bitmap, 1), ('itable', gd.inode_table, img.itb_per_group)):
                if b == 0 or b < img.first_data_block or b + n > img.blocks_count:
                    self.bad('R', 'gd_%s_range' % what, 'group %d -> %d' % (g, b)); continue
                if not flex and (b < lo or b + n > hi):
                    self.bad('R', 'gd_%s_outside_group' % what, 'group %d -> %d' % (g, b)); continue
                for i in range(n):
                    self.mark_fixed(b + i, '%s g%d' % (what, g))
        # MMP block
        if img.incompat & INCOMPAT_MMP:
            b = img.sb.s_mmp_block
            if b <= img.first_data_block or b >= img.blocks_count:
                self.bad('R', 'mmp_block_range')
            else:
                self.claim([b], 'mmp')

    def claim(self, blocks, tag):
        """record ownership per cluster; two different owners of one cluster = violation"""
        img = self.img
        seen = set()
        for b in blocks:
            if b < img.first_data_block or b >= img.blocks_count or b == 0:
                self.bad('R', 'block_out_of_range', '%s -> %d' % (tag, b)); continue
            if b in self.fixed:
                self.bad('R', 'block_in_fixed_metadata', '%s -> %d' % (tag, b)); continue
            c = b >> img.cluster_bits
            if not img.cluster_bits:
                if c in self.owner and not getattr(self, 'shared_ok', False):
                    self.bad('R', 'block_multiply_claimed', '%s and %s -> %d' % (self.owner[c], tag, b))
                self.owner[c] = tag
            else:
                if c in self.owner and self.owner[c] != tag:
                    self.bad('R', 'cluster_multiply_claimed', '%s and %s -> %d' % (self.owner[c], tag, b))
                if b in seen:
                    self.bad('R', 'block_multiply_claimed', '%s -> %d twice' % (tag, b))
                self.owner[c] = tag
            seen.add(b)

    # ------------------------------------------------------------------
    def inode_in_use(self, ino, I):
        img = self.img
        if ino < img.first_ino:
            # reserved inodes: only those the format gives a role to are looked at (root, resize, and the ones named by the superblock)
            if ino == 2: return True
            if ino == 7: return bool(img.compat & COMPAT_RESIZE_INODE) and I.i_mode != 0
            return ino in self.specials and I.i_mode != 0
        return I.i_links_count > 0 and I.i_mode != 0

    def scan_inodes(self):
        img = self.img
        self.ibit = {}
        for g in range(img.groups):
            bm = img.inode_bitmap(g)
            if img.has_csum and bm is not None:
                gd = img.gd[g]
                c = crc32c(img.csum_seed, bm[:img.ipg // 8])
                stored = gd.bg_inode_bitmap_csum_lo | ((gd.bg_inode_bitmap_csum_hi << 16) if img.desc_size >= 64 else 0)
                if img.desc_size < 64: c &= 0xffff
                if c != stored:
                    self.bad('K', 'ibitmap_csum', 'group %d' % g)
            for i in range(img.ipg):
                ino = g * img.ipg + i + 1
                bit = 0 if bm is None else (bm[i >> 3] >> (i & 7)) & 1
                self.ibit[ino] = bit
        specials = self.specials
        sb = img.sb
        if img.compat & COMPAT_HAS_JOURNAL and sb.s_journal_inum: specials.add(sb.s_journal_inum)
        for q in (sb.s_usr_quota_inum, sb.s_grp_quota_inum, sb.s_prj_quota_inum):
            if (img.ro & RO_QUOTA) and q: specials.add(q)
        if (img.compat & COMPAT_ORPHAN_FILE) and sb.s_orphan_file_inum: specials.add(sb.s_orphan_file_inum)
        for ino in range(1, img.inodes_count + 1):
            g = (ino - 1) // img.ipg
            gd = img.gd[g]
            try:
                I = img.inode(ino)
            except Malformed as e:
                self.bad('R', 'inode_table_unreadable', str(e)); return
            used = self.inode_in_use(ino, I)
            if ino >= img.first_ino and not self.ibit[ino]:
                # not allocated: must not look live *and* be referenced; references are caught in check_links
                continue
            if not used:
                continue
            # unused-inode region of the table must not hold live inodes
            if (img.has_csum or img.has_gdt_csum) and ((ino - 1) % img.ipg) >= img.ipg - gd.itable_unused and ino >= img.first_ino:
                self.bad('A', 'inode_in_itable_unused_area', 'inode %d' % ino)
            self.inuse[ino] = I
            try:
                self.check_inode(ino, I)
            except Malformed as e:
                if str(e) == 'extent depth too large':
                    continue        # e2fsck only says "tree could be more shallow" (PR_NO_OK): tolerated on purpose, nothing asserted for this inode
                self.bad('S', 'inode_structure', 'inode %d: %s' % (ino, e))

    def check_inode(self, ino, I):
        img = self.img
        if img.has_csum:
            c, s = img.inode_checksum(ino)
            if c != s:
                self.bad('K', 'inode_csum', 'inode %d' % ino)
        special = ino in self.specials or ino == 7
        if not special and img.inode_size > 128 and (I.i_extra_isize > img.inode_size - 128 or I.i_extra_isize % 4):
            self.bad('S', 'inode_extra_isize', 'inode %d' % ino)
        if ino >= img.first_ino or ino == 2:
            if I.fmt not in (S_IFREG, S_IFDIR, S_IFLNK, S_IFCHR, S_IFBLK, S_IFIFO, S_IFSOCK):
                self.bad('S', 'inode_bad_mode', 'inode %d mode %o' % (ino, I.i_mode)); return
        if ino == 2 and not I.is_dir():
            self.bad('S', 'root_not_dir'); return
        tag = 'inode %d' % ino
        nblk = 0
        clusters = set()
        data_blocks = []
        if ino == 7 and (img.compat & COMPAT_RESIZE_INODE):
            # reserved GDT blocks are reached through the resize inode's double-indirect block: they are fixed metadata
            dind = u32(I.i_block, 13 * 4)
            if dind:
                if dind in self.fixed or dind >= img.blocks_count or dind < img.first_data_block:
                    self.bad('R', 'resize_dind_range')
                else:
                    self.claim([dind], tag)
            return
        if ino == 1:
            return
        has_blocks = not (I.i_flags & FL_INLINE_DATA) and I.fmt in (S_IFREG, S_IFDIR, S_IFLNK) and not (I.is_lnk() and img.fast_symlink(I))
        if (I.i_flags & FL_EXTENTS) and not (img.incompat & INCOMPAT_EXTENTS):
            self.bad('S', 'extents_flag_without_feature', tag)
        if (I.i_flags & FL_INLINE_DATA) and not (img.incompat & INCOMPAT_INLINE_DATA):
            self.bad('S', 'inline_flag_without_feature', tag)
        if has_blocks:
            if I.i_flags & FL_EXTENTS:
                def node_cb(blkno, raw, depth):
                    if blkno is not None and img.has_csum:
                        mx = u16(raw, 4)
                        o = 12 + 12 * mx
                        if o + 4 <= img.bs:
                            want = crc32c(img.inode_csum_seed(ino, I.i_generation), raw[:o])
                            if want != u32(raw, o):
                                self.bad('K', 'extent_block_csum', '%s block %d' % (tag, blkno))
                ext, meta = img.walk_extents(I, node_cb)
                for lblk, ln, pblk, un in ext:
                    data_blocks += [(lblk + i, pblk + i) for i in range(ln)]
            else:
                m, meta = img.walk_blockmap(I)
                data_blocks = sorted(m.items())
            allb = [p for l, p in data_blocks] + meta
            self.claim(allb, tag)
            clusters = set(b >> img.cluster_bits for b in allb)
            # bigalloc: logical/physical cluster alignment must agree within a file
            if img.cluster_bits:
                lc = {}
                for l, p in data_blocks:
                    if (l & (img.cratio - 1)) != (p & (img.cratio - 1)):
                        self.bad('S', 'bigalloc_misaligned_extent', tag); break
                    k = l >> img.cluster_bits
                    if k in lc and lc[k] != p >> img.cluster_bits:
                        self.bad('R', 'logical_cluster_two_physical', tag); break
                    lc[k] = p >> img.cluster_bits
        elif I.fmt in (S_IFCHR, S_IFBLK, S_IFIFO, S_IFSOCK):
            pass
        # xattr block
        if I.file_acl and not special:
            b = I.file_acl
            if not (img.compat & COMPAT_EXT_ATTR) and False:
                pass
            if b >= img.blocks_count or b < img.first_data_block or b in self.fixed:
                self.bad('R', 'xattr_block_range', tag)
            else:
                if b not in self.xblocks:
                    self.xblocks[b] = 0
                    self.claim([b], 'xattr block %d' % b)
                    self.check_xattr_block(b)
                self.xblocks[b] += 1
                clusters.add(b >> img.cluster_bits)
        # i_blocks (ea_inode values are charged to the referencing inode, rounded up to clusters)
        ea_charge = 0
        if img.incompat & INCOMPAT_EA_INODE:
            try:
                for e, v, w in img.inode_xattrs(I):
                    if e['value_inum']:
                        vi = img.inode(e['value_inum'])
                        ok = False
                        for signed in (False, True):
                            h = self.xattr_entry_hash(dict(e, value_inum=0, value_size=0), b'', signed)
                            h = ((h << 16) & 0xffffffff) ^ (h >> 16) ^ vi.i_atime
                            if h == e['hash']: ok = True
                        if ok:
                            nb = (e['value_size'] + img.bs - 1) // img.bs
                            ea_charge += ((nb + img.cratio - 1) >> img.cluster_bits)
            except Malformed:
                pass
        want = (len(clusters) + ea_charge) * img.cratio * (img.bs // 512)
        have = img.i_blocks_sectors(I)
        # (creator OS Hurd: i_blocks also counts the translator block and e2fsck deliberately does not compare it; the osd2 words mean other things there)
        if ino not in (7,) and want != have and not self.shared_ok and img.sb.s_creator_os != 1:
            self.bad('A', 'i_blocks', '%s has %d, maps %d' % (tag, have, want))
        # in-inode xattrs + inline data
        self.check_inode_xattrs(ino, I)
        if I.is_dir():
            self.check_dir(ino, I, data_blocks)
        elif I.is_lnk():
            if I.size == 0 or I.size >= img.bs and not (I.i_flags & FL_INLINE_DATA):
                self.bad('S', 'symlink_size', tag)
            else:
                t = img.read_file(I)
                if b'\0' in t and not (I.i_flags & (FL_ENCRYPT | FL_INLINE_DATA)) and not any(un for l, p, un in img.file_blocks(I)[0]):
                    self.bad('S', 'symlink_nul', tag)
        if I.is_reg() or I.is_dir():
            if data_blocks and not (I.i_flags & FL_VERITY):
                last = max(l for l, p in data_blocks)
                sizeblk = (I.size + img.bs - 1) // img.bs
                if I.is_dir() and last >= sizeblk:
                    self.bad('S', 'dir_blocks_past_size', tag)

    def xattr_entry_hash(self, e, value, signed=False):
        h = 0
        for c in e['name']:
            if signed and c > 127: c -= 256
            h = ((h << 5) & 0xffffffff) ^ (h >> 27) ^ (c & 0xffffffff)
        if e['value_inum'] == 0 and e['value_size']:
            pad = (-len(value)) % 4
            v = value + b'\0' * pad
            for (w,) in struct.iter_unpack('<I', v):
                h = ((h << 16) & 0xffffffff) ^ (h >> 16) ^ w
        return h

    def check_xattr_block(self, b):
        img = self.img
        raw = img.blk(b)
        if u32(raw, 0) != 0xEA020000:
            self.bad('S', 'xattr_block_magic', 'block %d' % b); return
        if u32(raw, 8) != 1:
            self.bad('S', 'xattr_block_h_blocks', 'block %d' % b)
        if img.has_csum:
            r = bytearray(raw); r[16:20] = b'\0\0\0\0'
            c = crc32c(crc32c(img.csum_seed, struct.pack('<Q', b)), bytes(r))
            if c != u32(raw, 16):
                self.bad('K', 'xattr_block_csum', 'block %d' % b)
        try:
            ents, end = img.parse_xattr_entries(raw, 32, 0, img.bs, False)
        except Malformed as e:
            self.bad('S', 'xattr_block_entries', 'block %d: %s' % (b, e)); return
        self.check_xattr_values(ents, raw, 0, end, img.bs, 'xattr block %d' % b)
        # entry hashes (either char signedness is accepted, as e2fsck does)
        bh_ok = False
        for signed in (False, True):
            bh = 0; ok = True
            for e in ents:
                if e['value_inum']:
                    continue
                v = bytes(raw[e['value_offs']:e['value_offs'] + ((e['value_size'] + 3) & ~3)])     # hash covers whole 32-bit words as stored
                if self.xattr_entry_hash(e, v, signed) != e['hash']:
                    ok = False
            if ok: bh_ok = True
        if ents and not bh_ok and all(not e['value_inum'] for e in ents):
            self.bad('S', 'xattr_entry_hash', 'block %d' % b)

    def check_xattr_values(self, ents, raw, base, entries_end, limit, where):
        spans = []
        for e in ents:
            if e['value_inum']:
                if not (self.img.incompat & INCOMPAT_EA_INODE):
                    self.bad('S', 'ea_inode_without_feature', where)
                self.ea_inode_refs[e['value_inum']] = self.ea_inode_refs.get(e['value_inum'], 0) + 1
                continue
            if e['value_size'] == 0:
                continue
            s = base + e['value_offs']; t = s + e['value_size']
            if s < entries_end or t > limit:
                self.bad('S', 'xattr_value_bounds', where); continue
            spans.append((s, (t + 3) & ~3))
        spans.sort()
        for i in range(1, len(spans)):
            if spans[i][0] < spans[i - 1][1] and spans[i][0] != spans[i - 1][0]:
                self.bad('S', 'xattr_values_overlap', where); break

    def check_inode_xattrs(self, ino, I):
        img = self.img
        if img.inode_size <= 128:
            return
        start = 128 + I.i_extra_isize
        if start + 4 > img.inode_size or I.i_extra_isize > img.inode_size - 128:
            return
        raw = I.raw
        if u32(raw, start) != 0xEA020000:
            return
        try:
            ents, end = img.parse_xattr_entries(raw, start + 4, start + 4, img.inode_size, True)
        except Malformed as e:
            self.bad('S', 'inode_xattr_entries', 'inode %d: %s' % (ino, e)); return
        self.check_xattr_values(ents, raw, start + 4, end, img.inode_size, 'inode %d' % ino)

    # ------------------------------------------------------------------ directories
    def check_dir(self, ino, I, data_blocks):
        img = self.img
        tag = 'dir %d' % ino
        ents = []
        csum = img.has_csum
        ftfeat = bool(img.incompat & INCOMPAT_FILETYPE)
        if I.i_flags & FL_INLINE_DATA:
            data = img.read_file(I)
            if len(data) < 4 or I.size < 4:
                self.bad('S', 'inline_dir_too_small', tag); return
            ents.append((b'..', u32(data, 0), 2, 0))
            parts = [(4, min(60, len(data)))]
            if len(data) > 60: parts.append((60, len(data)))
            for s, e in parts:
                if e - s < 8: continue
                for o, cino, rl, nl, ft, name in img.dirent_iter(data, s, e):
                    if cino:
                        if nl == 0: self.bad('S', 'dirent_empty_name', tag)
                        ents.append((name, cino, ft, 0))
            self.dirs[ino] = ents
            self.parent[ino] = ents[0][1]
            return
        if I.size == 0 or I.size % img.bs:
            self.bad('S', 'dir_size', tag)
        mapped = dict(data_blocks)
        nblocks = (I.size + img.bs - 1) // img.bs
        if 0 not in mapped:
            self.bad('S', 'dir_block0_missing', tag); self.dirs[ino] = []; return
        indexed = bool(I.i_flags & FL_INDEX) and bool(img.compat & COMPAT_DIR_INDEX)
        dx_internal = set()
        leaf_range = {}
        hv = None
        if indexed:
            hv = self.check_dx(ino, I, mapped, nblocks, dx_internal, leaf_range)
        seed = img.inode_csum_seed(ino, I.i_generation) if csum else None
        for l in sorted(mapped):
            if l >= nblocks: continue
            raw = img.blk(mapped[l])
            if l in dx_internal and l != 0:
                continue
            first = True
            lst = list(img.dirent_iter(raw))
            has_tail = False
            if csum:
                o, cino, rl, nl, ft, name = lst[-1]
                if o == img.bs - 12 and cino == 0 and rl == 12 and nl == 0 and ft == 0xDE:
                    has_tail = True
                    if crc32c(seed, raw[:img.bs - 12]) != u32(raw, img.bs - 4):
                        self.bad('K', 'dirent_block_csum', '%s lblk %d' % (tag, l))
                    lst = lst[:-1]
                elif not (l == 0 and indexed):
                    self.bad('K', 'dirent_block_no_tail', '%s lblk %d' % (tag, l))
            for o, cino, rl, nl, ft, name in lst:
                if l == 0 and o == 0:
                    if name != b'.' or cino != ino: self.bad('S', 'dir_dot', tag)
                    continue
                if l == 0 and o == 12 and lst[0][2] == 12:
                    if name != b'..' or cino == 0: self.bad('S', 'dir_dotdot', tag)
                    self.parent[ino] = cino
                    continue
                if not cino: continue
                if nl == 0: self.bad('S', 'dirent_empty_name', tag)
                if (b'/' in name or b'\0' in name) and not (I.i_flags & (FL_ENCRYPT | FL_CASEFOLD)): self.bad('S', 'dirent_bad_name_char', tag)
                if name in (b'.', b'..'): self.bad('S', 'dirent_extra_dot', tag)
                ents.append((name, cino, ft, l))
                if indexed and hv is not None and l in leaf_range and not (I.i_flags & (FL_ENCRYPT | FL_CASEFOLD)):
                    h, _ = dirhash(hv, name, img.hash_seed)
                    lo, hi = leaf_range[l]
                    if (h & ~1) < (lo & ~1) or (hi is not None and (h & ~1) > (hi & ~1)):
                        self.bad('S', 'htree_hash_out_of_leaf_range', '%s lblk %d name %r' % (tag, l, name[:20]))
        if ino not in self.parent:
            self.bad('S', 'dir_dotdot_missing', tag)
        names = set()
        for name, cino, ft, l in ents:
            if name in names and (indexed or len(mapped) == 1):
                self.bad('S', 'dir_duplicate_name', '%s %r' % (tag, name[:20]))
            names.add(name)
        self.dirs[ino] = ents

    def check_dx(self, ino, I, mapped, nblocks, dx_internal, leaf_range):
        img = self.img
        tag = 'dir %d' % ino
        raw = img.blk(mapped[0])
        csum = img.has_csum
        try:
            d0 = list(img.dirent_iter(raw, 0, 24))[:2]
        except Malformed:
            d0 = []
        if u16(raw, 4) != 12 or u16(raw, 16) != img.bs - 12:
            self.bad('S', 'dx_root_dot_reclens', tag); return None
        if u32(raw, 24) != 0:
            self.bad('S', 'dx_root_reserved', tag)
        hv, ilen, levels, flags = raw[28], raw[29], raw[30], raw[31]
        if ilen != 8:
            self.bad('S', 'dx_root_info_length', tag); return None
        if hv > 2 and hv != 6:
            self.bad('S', 'dx_root_hash_version', tag); return None
        maxlev = 2 if (img.incompat & INCOMPAT_LARGEDIR) else 1
        if levels > maxlev:
            self.bad('S', 'dx_root_levels', tag); return None
        if hv <= 2 and (img.sb.s_flags & 2):
            hv_eff = hv + 3
        else:
            hv_eff = hv
        seed = img.inode_csum_seed(ino, I.i_generation) if csum else None
        seen = set()
        def node(lblk, raw, cnt_off, level, lo, hi):
            limit, count = u16(raw, cnt_off), u16(raw, cnt_off + 2)
            want_limit = (img.bs - cnt_off - (8 if csum else 0)) // 8
            if limit != want_limit:
                self.bad('S', 'dx_limit', '%s lblk %d limit %d want %d' % (tag, lblk, limit, want_limit)); return
            if count == 0 or count > limit:
                self.bad('S', 'dx_count', '%s lblk %d' % (tag, lblk)); return
            if csum:
                t = cnt_off + limit * 8
                c = crc32c(seed, raw[:cnt_off + count * 8])
                c = crc32c(c, raw[t:t + 4])
                c = crc32c(c, b'\0\0\0\0')
                if c != u32(raw, t + 4):
                    self.bad('K', 'dx_node_csum', '%s lblk %d' % (tag, lblk))
            prev = None
            ents = []
            for i in range(count):
                h = u32(raw, cnt_off + 8 * i) if i else lo
                blk = u32(raw, cnt_off + 8 * i + 4) & 0x0fffffff
                if i and prev is not None and h <= prev and i > 1:
                    self.bad('S', 'dx_hash_order', '%s lblk %d' % (tag, lblk))
                if i == 1 and h < lo:
                    self.bad('S', 'dx_hash_order', '%s lblk %d' % (tag, lblk))
                prev = h
                ents.append((h, blk))
            for i, (h, blk) in enumerate(ents):
                nh = ents[i + 1][0] if i + 1 < len(ents) else hi
                if blk == 0 or blk >= nblocks or blk not in mapped:
                    self.bad('S', 'dx_block_ref', '%s lblk %d -> %d' % (tag, lblk, blk)); continue
                if blk in seen:
                    self.bad('S', 'dx_block_referenced_twice', '%s -> %d' % (tag, blk)); continue
                seen.add(blk)
                if level > 0:
                    craw = img.blk(mapped[blk])
                    if u32(craw, 0) != 0 or u16(craw, 4) != img.bs:
                        self.bad('S', 'dx_node_fake_dirent', '%s lblk %d' % (tag, blk)); continue
                    dx_internal.add(blk)
                    node(blk, craw, 8, level - 1, h, nh)
                else:
                    leaf_range[blk] = (h, nh)
        dx_internal.add(0)
        node(0, raw, 32, levels, 0, None)
        for l in mapped:
            if l < nblocks and l not in seen and l not in dx_internal:
                # a leaf block not reachable from the index: its names cannot be found by lookup
                try:
                    live = any(c for o, c, rl, nl, ft, nm in img.dirent_iter(img.blk(mapped[l])) if not (ft == 0xDE and nl == 0))
                except Malformed:
                    live = True
                if live:
                    self.bad('S', 'dx_leaf_unreferenced', '%s lblk %d' % (tag, l))
        return hv_eff

    # ------------------------------------------------------------------ links
    FT = {S_IFREG: 1, S_IFDIR: 2, S_IFCHR: 3, S_IFBLK: 4, S_IFIFO: 5, S_IFSOCK: 6, S_IFLNK: 7}
    def check_links(self):
        img = self.img
        ftfeat = bool(img.incompat & INCOMPAT_FILETYPE)
        for d, ents in self.dirs.items():
            for name, c, ft, l in ents:
                if name == b'..':
                    continue
                if c < 1 or c > img.inodes_count:
                    self.bad('L', 'dirent_inode_range', 'dir %d %r -> %d' % (d, name[:20], c)); continue
                if c not in self.inuse or (c >= img.first_ino and not self.ibit.get(c)):
                    self.bad('L', 'dirent_to_unused_inode', 'dir %d %r -> %d' % (d, name[:20], c)); continue
                if c < img.first_ino and c != 2 and not (c == 11 and False):
                    self.bad('L', 'dirent_to_reserved_inode', 'dir %d -> %d' % (d, c)); continue
                C = self.inuse[c]
                if ftfeat and img.sb.s_creator_os != 1 and (ft & 7) != self.FT.get(C.fmt, 0) and (ft & 7) != 0:   # 0 = 'unknown' is tolerated (PR_2_SET_FILETYPE is PR_NO_OK)
                    self.bad('S', 'dirent_file_type', 'dir %d %r' % (d, name[:20]))
                if not ftfeat and ft & 0xf8 and False:
                    pass
                self.refs[c] = self.refs.get(c, 0) + 1
                if C.is_dir():
                    self.subdirs[d] = self.subdirs.get(d, 0) + 1
                    if self.parent.get(c) != d:
                        self.bad('L', 'dotdot_mismatch', 'dir %d parent %s listed in %d' % (c, self.parent.get(c), d))
                    if self.refs[c] > 1:
                        self.bad('L', 'dir_hard_link', 'dir %d' % c)
        if 2 in self.inuse and self.parent.get(2) != 2:
            self.bad('L', 'root_dotdot')
        if 2 not in self.inuse:
            self.bad('L', 'root_missing'); return
        # reachability
        reach = set([2]); todo = [2]
        while todo:
            d = todo.pop()
            for name, c, ft, l in self.dirs.get(d, []):
                if name == b'..' or c not in self.inuse: continue
                if c not in reach:
                    reach.add(c)
                    if self.inuse[c].is_dir(): todo.append(c)
        for ino, I in self.inuse.items():
            if ino < img.first_ino and ino != 2:
                continue
            if ino in self.specials:
                continue
            if I.i_flags & FL_EA_INODE:
                continue        # value inodes live outside the namespace; e2fsck tolerates unreferenced ones
            if ino not in reach:
                self.bad('L', 'inode_unreachable', 'inode %d' % ino); continue
            n = self.refs.get(ino, 0)
            if I.is_dir():
                want = 2 + self.subdirs.get(ino, 0)
                if ino == 2: want = 2 + self.subdirs.get(2, 0)
                # i_links_count == 1 on an indexed directory means "not tracked" (dir_nlink overflow); e2fsck documents it as no error
                if I.i_links_count != want and not (I.i_links_count == 1 and ((I.i_flags & FL_INDEX) or want > 65000)):
                    self.bad('L', 'dir_links_count', 'dir %d has %d want %d' % (ino, I.i_links_count, want))
            else:
                if I.i_links_count != n:
                    self.bad('L', 'links_count', 'inode %d has %d, %d references' % (ino, I.i_links_count, n))
        for b, n in self.xblocks.items():
            rc = u32(img.blk(b), 4)
            if rc != n:
                self.bad('A', 'xattr_block_refcount', 'block %d refcount %d, %d users' % (b, rc, n))

    # ------------------------------------------------------------------ allocation
    def check_alloc(self):
        img = self.img
        used_clusters = set(self.owner)
        for b in self.fixed:
            used_clusters.add(b >> img.cluster_bits)
        # on 1k-block bigalloc filesystems block 0 (boot block) belongs to cluster 0 which is in use anyway
        total_free = 0
        self.uninit_meta = set()
        if img.has_csum or img.has_gdt_csum:
            for g in range(img.groups):
                gd = img.gd[g]
                if gd.bg_flags & BG_BLOCK_UNINIT:
                    self.uninit_meta.update([gd.block_bitmap, gd.inode_bitmap] + list(range(gd.inode_table, gd.inode_table + img.itb_per_group)))
        for g in range(img.groups):
            gd = img.gd[g]
            first = img.group_first_block(g)
            nb = img.group_nblocks(g)
            c0 = (first - img.first_data_block) >> img.cluster_bits if False else None
            bm = img.block_bitmap(g)
            nclusters = (nb + img.cratio - 1) >> img.cluster_bits
            free = 0
            base_cluster = first >> img.cluster_bits
            if bm is not None and img.has_csum:
                c = crc32c(img.csum_seed, bm[:img.cpg // 8])
                stored = gd.bg_block_bitmap_csum_lo | ((gd.bg_block_bitmap_csum_hi << 16) if img.desc_size >= 64 else 0)
                if img.desc_size < 64: c &= 0xffff
                if c != stored:
                    self.bad('K', 'bbitmap_csum', 'group %d' % g)
            mism = 0
            for i in range(img.cpg):
                if i < nclusters:
                    want = 1 if (base_cluster + i) in used_clusters else 0
                    if bm is None:
                        have = want if True else 0
                        # BLOCK_UNINIT: the bitmap is defined to contain only this group's own fixed metadata
                        blk0 = first + (i << img.cluster_bits)
                        have = 1 if any((blk0 + k) in self.fixed for k in range(img.cratio)) else 0
                    else:
                        have = (bm[i >> 3] >> (i & 7)) & 1
                    if want != have:
                        mism += 1
                        blk0 = first + (i << img.cluster_bits)
                        code = 'block_bitmap_differs'
                        if want == 1 and have == 0 and blk0 in self.uninit_meta:
                            code = 'block_bitmap_clear_for_uninit_group_metadata'
                        if mism <= 3:
                            self.bad('A', code, 'group %d cluster %d: bitmap %d, usage %d' % (g, i, have, want))
                    if not have: free += 1
                elif bm is not None:
                    if not (bm[i >> 3] >> (i & 7)) & 1:
                        self.bad('A', 'block_bitmap_padding', 'group %d' % g); break
            if free != gd.free_blocks:
                self.bad('A', 'gd_free_blocks', 'group %d has %d counted %d' % (g, gd.free_blocks, free))
            # inodes
            ibm_free = 0; dirs = 0
            for i in range(img.ipg):
                ino = g * img.ipg + i + 1
                want = 1 if (ino in self.inuse or ino < img.first_ino) else 0
                have = self.ibit[ino]
                if img.inode_bitmap(g) is None:
                    have = 0
                    if want and ino >= img.first_ino: pass
                if want != have and not (ino < img.first_ino and img.inode_bitmap(g) is None):
                    self.bad('A', 'inode_bitmap_differs', 'inode %d: bitmap %d, in use %d' % (ino, have, want))
                if not have: ibm_free += 1
                if ino in self.inuse and self.inuse[ino].is_dir(): dirs += 1
            if ibm_free != gd.free_inodes:
                self.bad('A', 'gd_free_inodes', 'group %d has %d counted %d' % (g, gd.free_inodes, ibm_free))
            if dirs != gd.used_dirs:
                self.bad('A', 'gd_used_dirs', 'group %d has %d counted %d' % (g, gd.used_dirs, dirs))

def check(img, want=('R', 'A', 'L', 'S', 'K')):
    """img: Image or bytes.  Returns list of violations; a parse failure of the superblock/descriptors is one 'S' violation."""
    try:
        if not isinstance(img, Image):
            img = Image(img)
        if img.inodes_count > 40000 or img.blocks_count > (1 << 20):
            return []           # outside the small-scope checker's size limits: nothing asserted
        return Checker(img, want).run()
    except Malformed as e:
        return [('S', 'malformed', str(e))]
    except (struct.error, IndexError, ValueError, KeyError, RecursionError, OverflowError, MemoryError) as e:
        return [('S', 'malformed_exc', '%s: %s' % (type(e).__name__, e))]
