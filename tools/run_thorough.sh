#!/bin/bash
# run_thorough.sh [ID...]  -- development aid: run the thorough tier of each check in turn, logs and a summary under $VERIF_OUT (default ./thor_out).
cd "$(dirname "$0")/.."
export VERIF_OUT=${VERIF_OUT:-$PWD/thor_out}
mkdir -p "$VERIF_OUT"
IDS=${@:-C05 C08 C12 C17 C09 C11 C10 C15 C01 C02 C06 C03 C04 C07 C13 C14 C16 C18 C19 C20}
for p in $IDS; do
  s=$(date +%s)
  tools/vcheck $p --tier thorough > "$VERIF_OUT/$p.log" 2>&1
  rc=$?
  echo "$p rc=$rc wall=$(( $(date +%s) - s ))s $(grep '^\[C' "$VERIF_OUT/$p.log" | tail -1 | cut -c1-220)" >> "$VERIF_OUT/summary.txt"
done
