"""Deviation-bounded corruption sweeps over the committed corpus: catalogue -> mutants -> per-mutant pipeline on a process pool."""
import os, lzma, re, struct, hashlib
from .common import *
from xck.image import Image, Malformed
from xck import layout

CORPUS = ['ext2', 'ext2dx', 'ext3', 'ext4', 'ext4csum', 'bigalloc', 'inline', 'eainode', 'quota', 'metabg', 'bs4k', 'ss2', 'resizeino', 'mmp', 'eashare', 'bigquota', 'lpffull', 'deepext', 'hurd']
_cache = {}
QUICK_BASES = ['ext2dx', 'ext4csum', 'inline', 'resizeino', 'eashare']
SWEEP_BASES = [b for b in CORPUS if b not in ('mmp', 'deepext')]     # read-write e2fsck sleeps 11 s on an MMP filesystem: excluded from the repair sweeps
_cache = {}
def base_data(name):
    if name not in _cache:
        _cache[name] = lzma.decompress(open(os.path.join(VERIF, 'corpus', name + '.img.xz'), 'rb').read())
    return _cache[name]

def mutant_list(name, sealed=(False, True), fields_filter=None, settle=False):
    """[(mid, off, size, value, seal-or-None)]  (seal variants only where the filesystem has checksums and the field is sealable)"""
    d = base_data(name)
    img = Image(d)
    out = []
    csum_fs = img.has_csum or img.has_gdt_csum
    for f in layout.catalogue(img):
        if fields_filter and not fields_filter(f):
            continue
        old = int.from_bytes(d[f.off:f.off + f.size], 'little')
        for v in layout.values(img, f, old):
            for s in sealed:
                if s and (not csum_fs or f.seal is None or f.klass == 'csum'):
                    continue
                out.append(('%s/%s=0x%x%s' % (name, f.id(), v, '+seal' if s else ''), f.off, f.size, v, f.seal if s else None))
            # block pointers inside inodes / mapping blocks: one more variant whose allocation summaries are settled around the new pointer
            if settle and f.klass == 'blk' and not img.bigalloc and re.match(r'ino\d+', f.obj) and f.name != 'i_file_acl_lo':
                m = re.match(r'ino(\d+)', f.obj)
                out.append(('%s/%s=0x%x+settle' % (name, f.id(), v), f.off, f.size, v, ('settle', int(m.group(1))) + tuple(f.seal or ())))
    return out

def make_mutant(name, off, size, value, seal):
    d = bytearray(base_data(name))
    d[off:off + size] = value.to_bytes(size, 'little')
    if seal is not None:
        layout.reseal(d, Image(base_data(name)), tuple(seal))
    return bytes(d)

def pair_list(name, reps, sealed=True):
    """all unordered pairs of representative single mutants touching different fields -> k=2 mutants"""
    out = []
    for i in range(len(reps)):
        for j in range(i + 1, len(reps)):
            a, b = reps[i], reps[j]
            if a[1] == b[1]:
                continue
            out.append((a[0] + ' & ' + b[0].split('/', 1)[1], [a[1:], b[1:]]))
    return out

def make_multi(name, parts):
    d = bytearray(base_data(name))
    img = Image(base_data(name))
    for off, size, value, seal in parts:
        d[off:off + size] = value.to_bytes(size, 'little')
    st = None
    for off, size, value, seal in parts:
        if seal is not None and seal[0] == 'settle':
            st = seal; seal = tuple(seal[2:]) or None
        if seal is not None:
            layout.reseal(d, img, tuple(seal))
    if st is not None:
        from xck.settle import settle as _settle
        r = _settle(bytes(d), st[1])
        if r is not None: return r
    return bytes(d)

PROB_RE = re.compile(r'<problem code="0x([0-9a-f]+)" answer="(-?\d+)"')
def read_problem_log(path):
    try:
        txt = open(path, errors='replace').read()
    except OSError:
        return []
    return [(int(c, 16), int(a)) for c, a in PROB_RE.findall(txt)]

def worker_path(tag='m'):
    return os.path.join(scratch_worker(), '%s.img' % tag)

_wdir = None
def scratch_worker():
    """per-process scratch dir under the parent's scratch (inherited via env)"""
    global _wdir
    if _wdir is None or _wdir[1] != os.getpid() or not os.path.isdir(_wdir[0]):
        base = os.environ.get('VERIF_SCRATCH') or scratch()
        _wdir = (os.path.join(base, 'w%d' % os.getpid()), os.getpid())
        os.makedirs(_wdir[0], exist_ok=True)
    return _wdir[0]

def init_scratch():
    os.environ['VERIF_SCRATCH'] = scratch()
