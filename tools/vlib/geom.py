"""Runtime-built geometry family: small metadata_csum filesystems whose inode tables have every size from 1 block per group upwards and whose
inodes are IN USE IN EVERY GROUP (empty files, fifos and fast symlinks fill the table in inode order).  Used for per-inode sweeps where the position of the inode (group, block inside
the table, slot inside the scan buffer) matters, which the one-representative-per-class catalogue of the corpus sweeps cannot reach.
Images are made with the tree's own mke2fs/debugfs; a geometry is used only if both e2fsck -fn and the independent checker accept the pristine image."""
import os
from .common import *
from . import fsweep
from xck.image import Image
from xck.check import check as xcheck

def build_geom(quick):
    """-> [base name]; images are registered in fsweep._cache under that name"""
    out = []
    sc = scratch()
    specs = []
    for k in (range(1, 13) if not quick else (1, 2, 3, 5, 7, 8, 9, 12)):
        specs.append(('geomI128_itb%d' % k, '128', 8 * k, 'metadata_csum,64bit'))
    for k in ((2, 4, 6, 10, 14, 16, 18) if not quick else (2, 6, 10)):
        specs.append(('geomI256_itb%d' % k, '256', 4 * k, 'metadata_csum'))
    if not quick:
        for k in (1, 3, 4, 5):
            specs.append(('geomI128u_itb%d' % k, '128', 8 * k, '^metadata_csum,uninit_bg'))
    for name, isz, ipg, feat in specs:
        p = os.path.join(sc, name + '.img')
        rc, o = run([tool('mke2fs'), '-q', '-F', '-t', 'ext4', '-O', '^has_journal,^resize_inode,^flex_bg,' + feat, '-b', '1024', '-g', '256', '-N', str(3 * ipg), '-I', isz,
                     '-U', '6b33f586-a183-4383-921d-30ab132db9b9', '-E', 'hash_seed=a0c4b9f1-7e1d-4c6b-8f4e-9d2f1b3c5a70,lazy_itable_init=0', p, str(3 * 256 + 1)], timeout=60)
        if rc != 0: log('geom: %s: mke2fs exit %s' % (name, rc)); continue
        n = 3 * ipg
        # fills every free inode in order (the last few requests fail with "no free inodes", harmlessly); mostly empty regular files (nothing but the inode scan of
        # pass 1 ever reads those inodes again), every 5th a fifo, every 7th a fast symlink
        cmds = ['mkdir /d'] + [('mknod /d/p%d p' % i) if i % 5 == 4 else ('symlink /d/s%d t%d' % (i, i)) if i % 7 == 6 else ('write /dev/null /d/f%d' % i) for i in range(n)]
        sp = p + '.dbg'; open(sp, 'w').write('\n'.join(cmds) + '\n')
        run([tool('debugfs'), '-w', '-f', sp, p], timeout=120)
        os.unlink(sp)
        d = open(p, 'rb').read(); os.unlink(p)
        try:
            im = Image(d)
            ok = run_check(d) and not xcheck(d)
        except Exception as e:
            ok = False
        if not ok or im.ipg != ipg:
            log('geom: %s not usable (ipg %s)' % (name, getattr(im, 'ipg', '?'))); continue
        fsweep._cache[name] = d
        out.append(name)
    return out

def run_check(d):
    p = fsweep.worker_path('geomk0')
    with open(p, 'wb') as f: f.write(d)
    return run([tool('e2fsck'), '-fn', p], timeout=60)[0] == 0

def inode_mutants(name):
    """per in-use inode: (mutant id, [(off, size, value, seal)])"""
    d = fsweep.base_data(name); im = Image(d)
    out = []
    for ino in range(1, im.inodes_count + 1):
        g = (ino - 1) // im.ipg
        bm = im.inode_bitmap(g)
        if bm is None or not (bm[((ino - 1) % im.ipg) >> 3] >> (((ino - 1) % im.ipg) & 7)) & 1: continue
        if ino < im.first_ino and ino != 2: continue
        loc = im.inode_loc(ino)
        at = int.from_bytes(d[loc + 8:loc + 12], 'little'); ln = int.from_bytes(d[loc + 26:loc + 28], 'little'); ib = int.from_bytes(d[loc + 28:loc + 32], 'little')
        seal = ('ino', ino)
        out.append(('%s/ino%d.i_atime^1' % (name, ino), [(loc + 8, 4, at ^ 1, None)]))                     # checksum-only damage (on csum filesystems)
        out.append(('%s/ino%d.i_links_count+1+seal' % (name, ino), [(loc + 26, 2, (ln + 1) & 0xffff, seal)]))    # wrong link count behind a valid checksum
        out.append(('%s/ino%d.i_blocks+2+seal' % (name, ino), [(loc + 28, 4, ib + 2, seal)]))                # wrong i_blocks behind a valid checksum
    return out
