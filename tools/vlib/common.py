"""Shared plumbing for all checks: builds, deterministic tool environment, scratch space,
process pool, evidence files, known findings, violation/replay reporting."""
import os, sys, json, time, subprocess, hashlib, shutil, tempfile, atexit, signal, re
from concurrent.futures import ProcessPoolExecutor

VERIF = os.path.dirname(os.path.dirname(os.path.dirname(os.path.abspath(__file__))))
REPO = os.environ.get('VERIF_REPO', '/repo')
BUILD = os.environ.get('VERIF_BUILD_ROOT') or os.path.join(VERIF, 'build')       # alternate roots are used only to try the checks on scratch copies of the tree
OUT = os.environ.get('VERIF_OUT') or VERIF                                          # where evidence/ and replays/ are written
NPROC = int(os.environ.get('VERIF_JOBS', '16'))
SEED = int(os.environ.get('VERIF_SEED', '0') or 0)

def log(*a):
    print(*a, file=sys.stderr, flush=True)

# ---------------------------------------------------------------- builds
_built = {}
def build(variant='plain'):
    """Build /repo's working tree (incrementally) and return the source/build dir."""
    if variant in _built:
        return _built[variant]
    t = time.time()
    r = subprocess.run([os.path.join(VERIF, 'tools/build.sh'), variant], stdout=subprocess.PIPE, stderr=subprocess.PIPE, text=True)
    if r.returncode != 0:
        log(r.stderr)
        raise SystemExit('BUILD FAILED variant=%s (the tree under test does not compile)' % variant)
    d = r.stdout.strip().splitlines()[-1]
    log('[build %s: %.1fs]' % (variant, time.time() - t))
    _built[variant] = d
    return d

TOOLS = {'e2fsck': 'e2fsck/e2fsck', 'mke2fs': 'misc/mke2fs', 'debugfs': 'debugfs/debugfs', 'tune2fs': 'misc/tune2fs',
         'dumpe2fs': 'misc/dumpe2fs', 'resize2fs': 'resize/resize2fs', 'e2image': 'misc/e2image', 'e2undo': 'misc/e2undo',
         'e2freefrag': 'misc/e2freefrag', 'chattr': 'misc/chattr', 'lsattr': 'misc/lsattr'}
def tool(name, variant='plain'):
    return os.path.join(build(variant), TOOLS[name])

FAKE_TIME = 1700000000
def tool_env(extra=None):
    e = {'PATH': '/usr/bin:/bin', 'TZ': 'GMT0', 'LC_ALL': 'C', 'E2FSCK_CONFIG': '/dev/null',
         'MKE2FS_CONFIG': os.path.join(VERIF, 'corpus/mke2fs.conf'), 'E2FSPROGS_SKIP_PROGRESS': '1',
         'E2FSPROGS_LIBMAGIC_SUPPRESS': '1', 'BLKID_FILE': '/dev/null', 'E2FSPROGS_FAKE_TIME': str(FAKE_TIME),
         'E2FSCK_TIME': str(FAKE_TIME), 'SOURCE_DATE_EPOCH': str(FAKE_TIME), 'MKE2FS_DETERMINISTIC': '1',
         'ASAN_OPTIONS': 'detect_leaks=0:exitcode=99:abort_on_error=0:allocator_may_return_null=1',
         'E2FSPROGS_UNDO_DIR': 'none'}
    if extra:
        e.update(extra)
    return e

# A change that makes a tool hang (on every input or on a class of inputs) would otherwise cost (cases x timeout) of wall-clock, and a loop that
# allocates would exhaust memory.  Per worker process: after 3 consecutive or 5 hangs in total the limit of ordinary runs drops to HANG_SHORT
# seconds (tiny images take milliseconds); after 10 consecutive or 40 in total the tool is no longer started and the case is reported as a hang at
# once (every 10th case is still tried).  This only shortens runs whose check already fails.  Non-sanitizer binaries run under an address-space limit.
_hang_streak = 0
_hang_total = 0
HANG_SHORT = 4
def run(argv, timeout=20, env=None, stdin=None, cwd=None, max_output=64 << 20):
    global _hang_streak, _hang_total
    if (_hang_streak >= 10 or _hang_total >= 40) and (_hang_total % 10) != 0:
        _hang_streak += 1; _hang_total += 1
        return 'TIMEOUT', '[not started: %d runs in this worker did not finish within their limit (%d in a row)]' % (_hang_total - 1, _hang_streak - 1)
    if (_hang_streak >= 3 or _hang_total >= 5) and timeout <= 60:      # explicit long limits (re-runs before calling something a hang) are kept
        timeout = min(timeout, HANG_SHORT)
    rc, out = _run_raw(argv, timeout, env, stdin, cwd, max_output)
    if rc == 'TIMEOUT': _hang_streak += 1; _hang_total += 1
    else: _hang_streak = 0
    return rc, out

def _limit_as():
    import resource
    try: resource.setrlimit(resource.RLIMIT_AS, (12 << 30, 12 << 30))
    except Exception: pass

def _run_raw(argv, timeout=20, env=None, stdin=None, cwd=None, max_output=64 << 20):
    """Run a tool; returns (rc, stdout+stderr text). rc negative = signal, 'TIMEOUT' = timed out (or flooded its output: more than
    max_output bytes, which is treated like non-termination).  Only the first 256 KiB and the last 64 KiB of the output are kept."""
    import select
    try:
        san = '/plain/' not in argv[0]          # only the plain tool builds get the limit: sanitizer runtimes reserve terabytes of address space
        pr = subprocess.Popen(argv, stdout=subprocess.PIPE, stderr=subprocess.STDOUT, env=env or tool_env(),
                              stdin=subprocess.DEVNULL if stdin is None else subprocess.PIPE, cwd=cwd, preexec_fn=None if san else _limit_as)
    except OSError as e:
        return 127, 'cannot execute %s: %s' % (argv[0], e)
    if stdin is not None:
        try:
            pr.stdin.write(stdin); pr.stdin.close()
        except OSError:
            pass
    fd = pr.stdout.fileno()
    head = bytearray(); tail = bytearray(); total = 0
    deadline = time.time() + timeout
    flooded = False; eof = False
    while True:
        left = deadline - time.time()
        if left <= 0:
            break
        r, _, _ = select.select([fd], [], [], min(left, 1.0))
        if not r:
            continue
        b = os.read(fd, 65536)
        if not b:
            eof = True
            break
        total += len(b)
        if len(head) < (256 << 10):
            head += b[:(256 << 10) - len(head)]
        tail += b
        if len(tail) > (128 << 10): tail = tail[-(64 << 10):]
        if total > max_output:
            flooded = True
            break
    if total <= (256 << 10):
        out = bytes(head)
    else:
        t = bytes(tail[-(64 << 10):])
        out = bytes(head) + b'\n...[output shortened, %d bytes in total]...\n' % total + t
    if flooded or not eof:
        pr.kill()
        try: pr.wait(timeout=10)
        except Exception: pass
        pr.stdout.close()
        return 'TIMEOUT', out.decode('latin1') + ('\n[output flood: more than %d bytes]' % max_output if flooded else '')
    try:
        rc = pr.wait(timeout=max(1.0, deadline - time.time()))
    except subprocess.TimeoutExpired:
        pr.kill(); pr.wait()
        pr.stdout.close()
        return 'TIMEOUT', out.decode('latin1')
    pr.stdout.close()
    return rc, out.decode('latin1')

# ---------------------------------------------------------------- scratch
_scratch = None
def scratch():
    global _scratch
    if _scratch is None:
        base = '/dev/shm' if os.path.isdir('/dev/shm') and os.access('/dev/shm', os.W_OK) else tempfile.gettempdir()
        _scratch = tempfile.mkdtemp(prefix='verif.', dir=base)
        pid = os.getpid()
        def _rm():
            if os.getpid() == pid:
                shutil.rmtree(_scratch, ignore_errors=True)
        atexit.register(_rm)
        signal.signal(signal.SIGTERM, lambda *a: sys.exit(143))
    return _scratch

def sha(b):
    return hashlib.sha256(b).hexdigest()

def pmap(fn, items, chunksize=None, jobs=None, init=None, initargs=()):
    """Ordered parallel map over a list with a process pool (fork)."""
    items = list(items)
    if not items:
        return []
    jobs = jobs or NPROC
    if jobs == 1 or len(items) == 1:
        if init: init(*initargs)
        return [fn(x) for x in items]
    if chunksize is None:
        chunksize = max(1, min(64, len(items) // (jobs * 8) or 1))
    # A worker that dies abruptly (OOM kill, a stray signal) breaks the pool; CPython 3.11 can then hang forever in
    # shutdown(wait=True) (executor manager thread dies on InvalidStateError).  So: no `with`, kill the workers ourselves,
    # and retry the whole (pure, deterministic) map once with fewer workers before giving up loudly.
    from concurrent.futures.process import BrokenProcessPool
    for attempt in (0, 1):
        ex = ProcessPoolExecutor(max_workers=jobs if attempt == 0 else max(1, jobs // 2), initializer=init, initargs=initargs)
        try:
            res = list(ex.map(fn, items, chunksize=chunksize))
            ex.shutdown(wait=True)
            return res
        except BrokenProcessPool:
            procs = list((getattr(ex, '_processes', None) or {}).values())
            for pr in procs:
                try: pr.kill()
                except Exception: pass
            try: ex.shutdown(wait=False, cancel_futures=True)
            except Exception: pass
            if attempt == 1:
                raise
            sys.stderr.write('[pmap] process pool broke (a worker died); retrying once with %d workers\n' % max(1, jobs // 2))
        except BaseException:
            procs = list((getattr(ex, '_processes', None) or {}).values())
            for pr in procs:
                try: pr.kill()
                except Exception: pass
            try: ex.shutdown(wait=False, cancel_futures=True)
            except Exception: pass
            raise

# ---------------------------------------------------------------- findings / violations / evidence
def load_known(prop):
    p = os.path.join(VERIF, 'known_findings.json')
    if not os.path.exists(p):
        return []
    d = json.load(open(p))
    return [f for f in d.get('findings', []) if f.get('property') == prop]

def load_known_cases(prop):
    """known_findings/<prop>.cases.json: {finding id: {what, example, cases: [exact case ids]}} -> {case id: finding id}, {finding id: what}"""
    p = os.path.join(VERIF, 'known_findings', prop + '.cases.json')
    if not os.path.exists(p) or os.environ.get('VERIF_NO_KNOWN_CASES'):      # maintenance runs (tools/mkfindings.py) dump everything
        return {}, {}
    d = json.load(open(p))
    m = {}; what = {}
    for fid, f in d.items():
        what[fid] = f.get('what', '')
        for c in f.get('cases', []):
            m[c] = fid
    return m, what

class Check:
    """Collects results of one check run and writes evidence + replay files."""
    def __init__(self, prop, tier, level):
        self.prop, self.tier, self.level = prop, tier, level
        self.t0 = time.time()
        self.cov = {'evaluations': 0, 'distinct_nontrivial': 0, 'rule': '', 'samples': [], 'states': 0, 'transitions': 0,
                    'traces_validated_against_impl': 0, 'exhaustive': True}
        self.assumptions = []
        self.violations = []      # (case_id, detail dict)
        self.known_hit = {}
        self.known = load_known(prop)
        self.known_cases, self.known_cases_what = load_known_cases(prop)
        self.parts = {}
        self.deadline = None
        self.replay_dir = os.path.join(OUT, 'replays', prop)

    def set_deadline(self, seconds):
        self.deadline = self.t0 + float(os.environ.get('VERIF_DEADLINE', seconds))
    def expired(self):
        return self.deadline is not None and time.time() > self.deadline

    def add(self, **kw):
        for k, v in kw.items():
            if k == 'samples':
                for s in v:
                    if len(self.cov['samples']) < 12:
                        self.cov['samples'].append(s)
            elif k in ('rule',):
                self.cov[k] = (self.cov[k] + ' || ' + v) if self.cov[k] else v
            elif k == 'exhaustive':
                self.cov[k] = self.cov[k] and v
            elif isinstance(v, (int, float)) and k in self.cov:
                self.cov[k] += v
            else:
                self.cov[k] = v
    def part(self, name, **kw):
        self.parts[name] = kw
        self.cov['parts'] = self.parts

    def match_known(self, case_id, detail=None):
        if case_id in self.known_cases:
            fid = self.known_cases[case_id]
            return {'id': fid, 'what': self.known_cases_what.get(fid, '')}
        if ' & ' in case_id and '/' in case_id:
            # a two-field case '<base>/<a> & <b>': when one of its components is, on its own, a listed failing input, the pair is that finding again
            # (the component alone already violates the property; the second deviation adds no information)
            base, rest = case_id.split('/', 1)
            for comp in rest.split(' & '):
                fid = self.known_cases.get(base + '/' + comp)
                if fid is not None:
                    return {'id': fid, 'what': self.known_cases_what.get(fid, '')}
        for f in self.known:
            if 'case' in f and f['case'] == case_id:
                return f
            if 'case_re' in f and re.fullmatch(f['case_re'], case_id):
                if 'detail_re' in f and not re.search(f['detail_re'], json.dumps(detail, sort_keys=True, default=str)):
                    continue
                return f
        return None

    def violation(self, case_id, detail):
        """Report a violating case.  detail must carry everything --replay needs."""
        f = self.match_known(case_id, detail)
        if f is not None:
            k = f.get('id', f.get('case', f.get('case_re')))
            self.known_hit.setdefault(k, [f, 0])
            self.known_hit[k][1] += 1
            return False
        self.violations.append((case_id, detail))
        return True

    def finish(self):
        os.makedirs(os.path.join(OUT, 'evidence'), exist_ok=True)
        for k, (f, n) in sorted(self.known_hit.items()):
            print('KNOWN-FINDING: property=%s %s (%d case(s) this run; %s)' % (self.prop, k, n, f.get('what', '')))
        nviol = len(self.violations)
        if nviol and os.environ.get('VERIF_DUMP_ALL'):
            os.makedirs(self.replay_dir, exist_ok=True)
            with open(os.path.join(self.replay_dir, 'all.jsonl'), 'w') as f:
                for cid, det in self.violations:
                    f.write(json.dumps({'case': cid, 'detail': det}, default=str) + '\n')
        if os.path.isdir(self.replay_dir):
            for f_ in os.listdir(self.replay_dir):          # replay files of earlier runs would be mistaken for this run's
                if re.fullmatch(r'v\d+\.json', f_): os.unlink(os.path.join(self.replay_dir, f_))
        if nviol:
            os.makedirs(self.replay_dir, exist_ok=True)
            for i, (cid, det) in enumerate(self.violations[:50]):
                p = os.path.join(self.replay_dir, 'v%03d.json' % i)
                json.dump({'property': self.prop, 'case': cid, 'detail': det}, open(p, 'w'), indent=1, default=str)
                print('VIOLATION property=%s replay=%s' % (self.prop, p))
                log('   case: %s' % cid)
        if self.cov['distinct_nontrivial'] == 0:
            self.cov['distinct_nontrivial'] = self.cov.get('states', 0)
        if self.cov['evaluations'] == 0:
            self.cov['evaluations'] = self.cov.get('transitions', 0)
        ev = {'property_id': self.prop, 'tier': self.tier, 'seed': SEED, 'level': self.level, 'coverage': self.cov,
              'assumptions': self.assumptions, 'wall_s': round(time.time() - self.t0, 2), 'violations': nviol,
              'known_findings_hit': {k: n for k, (f, n) in self.known_hit.items()}}
        p = os.path.join(OUT, 'evidence', self.prop + '.json')
        json.dump(ev, open(p + '.tmp', 'w'), indent=1, default=str)
        os.replace(p + '.tmp', p)
        log('[%s %s] evaluations=%d distinct=%d states=%d transitions=%d exhaustive=%s violations=%d known=%d wall=%.1fs' % (
            self.prop, self.tier, self.cov['evaluations'], self.cov['distinct_nontrivial'], self.cov['states'],
            self.cov['transitions'], self.cov['exhaustive'], nviol, len(self.known_hit), time.time() - self.t0))
        return 1 if nviol else 0
